#!/bin/bash
# usage: tools/benign.sh <refactor.diff> [props...] - applies a behaviour-preserving refactoring of rare to a scratch worktree of /repo's HEAD and runs
# the quick tier of the given (default: all) checks against it. Every line should say exit 0: anything else is a false alarm or a construct the
# instrumenter cannot handle.
set -u
PATCH=$(realpath "$1"); shift
PROPS=${@:-C01 C02 C03 C04 C05 C06 C10 C13 C15}
W=/tmp/benign-$$
git -C /repo worktree add -q --detach $W HEAD || exit 3
trap 'git -C /repo worktree remove --force $W 2>/dev/null' EXIT
git -C $W apply "$PATCH" || { echo "benign: patch does not apply"; exit 3; }
for p in $PROPS; do
  VERIF_REPO=$W VERIF_SHRINK_SECONDS=8 /verif/bin/check run $p --tier quick > /tmp/benign.$$.out 2>&1; rc=$?
  echo "$(basename $(dirname $PATCH))/$(basename $PATCH) $p exit=$rc $(grep -a -E '^check .* tier=quick:' /tmp/benign.$$.out | sed 's/.*in //' | cut -c1-60)"
  if [ $rc -ne 0 ]; then grep -a -vE '^\[Log\]|^$|^KNOWN' /tmp/benign.$$.out | tail -12 | cut -c1-400; fi
done
rm -f /tmp/benign.$$.out
