#!/usr/bin/env python3
"""Regenerates /verif/MANIFEST.json from the tables below (kept valid at all times)."""
import json, sys

GO = "GOFLAGS=-mod=mod GOPROXY=off GOSUMDB=off GOTOOLCHAIN=local /opt/veriftools/go1.26.8/bin/go"
SETUP = ("cd /verif/sim/tool && %s build -o /verif/bin/check ./cmd/check && %s build -o /verif/bin/siminstr ./cmd/siminstr" % (GO, GO))

NOTE = ("Trusted: Go 1.26.8 runtime + testing/synctest, the source-to-source instrumenter (scratch copy of /repo, checked by the "
        "determinism self-run at GOMAXPROCS 1/4/16), stdlib regexp as matching oracle. Preemption only at visible operations. "
        "Seeded sampling of schedules and faults, not enumeration.")
TECH = ("deterministic simulation with fault injection: real pipeline goroutines inside one testing/synctest bubble, cooperative "
        "scheduler and fs/stdin fault plan driven by one seeded tape, sequential reference model as oracle, tape shrinking and "
        "fresh-process replay")

RACE_NOTE = (" Race leg: the interleaving is the real scheduler's (not tape-controlled); a report is sound, a clean leg is only as strong as the race "
             "detector's happens-before analysis over the executed accesses.")
RACE_TECH = "; plus a free-running -race leg over the same seeded worlds (interleavings inside one matcher/expression call have no visible operation for the cooperative scheduler)"

CLAIMED = {
 "C01": dict(
   text="Seeded search over schedules x read chunkings x tuning knobs (-z with mixed plain/gzip inputs, -I, scanner-buffer and index-pool sizes) of the real batchers+extractor pipeline, API-level, through `rare filter` in-process, and (one run in eight) over followed files through batchers.TailFilesToChan; every run's counters and emitted (source,line,key) multiset are compared with a sequential reference classification. A free-running -race leg re-runs the same worlds truly in parallel (same oracle; a data race among pipeline goroutines is reported). Evidence of absence over the explored runs, not proof.",
   ref="DESIGN.md section 5 C01 and 13.7", note=NOTE + RACE_NOTE, tech=TECH + RACE_TECH),
 "C02": dict(
   text="Same simulated pipeline (incl. -z, -I, lines with case-changing and invalid UTF-8 bytes) with a consumer that retains every match until the run ended; each match's source, line number, text, indices and key are re-read then and compared with stdlib regexp / reference dissect on private copies; `rare --color filter` output with SGR codes stripped must be the matched lines byte for byte; one run in four follows growing files (source, gap-free line numbers and text of every batch handed to the workers, under slow consumers and the 250ms time flush). A free-running -race leg re-runs the same worlds truly in parallel. Evidence over explored runs, not proof.",
   ref="DESIGN.md section 5 C02 and 13.7", note=NOTE + RACE_NOTE, tech=TECH + RACE_TECH),
 "C04": dict(
   text="Seeded search over byte strings (0-200 bytes dense in \\n and \\r, and long stall-heavy streams of 100-400 lines) x partitions of the stream into Read results (chunk sizes, 0-byte stalls in runs of up to 150, whole-line reads, data-with-EOF, one injected non-EOF error, sticky or transient) x buffer sizes for both scanners; every case is compared with a reference splitter on the delivered prefix, OnError is counted, every returned slice is re-read after the scan and again after the next scanner has run (aliasing, also through recycled buffers), and a scanner that keeps reading with an empty buffer is reported as non-terminating. One run in eight, and a free-running -race leg, use the scanners the way the pipeline does (one per input, two or more reader goroutines, lines held in batches and matches by other goroutines): every retained line is re-read after the run. Evidence over explored cases, not proof.",
   ref="DESIGN.md section 5 C04",
   note="Trusted: the 15-line reference splitter; the scripted reader is the only stub. No goroutines exist in this property; the 'schedule' is the read partition drawn from the tape.",
   tech="deterministic simulation with fault injection: scripted io.Reader (seeded read partition, stalls, EOF forms, injected error) under the real scanners, reference splitter oracle, retained-slice aliasing re-check, tape shrinking and fresh-process replay; a pipeline leg under the cooperative scheduler and a free-running -race leg for scanners used by concurrent readers"),
}

CLAIMED["C05"] = dict(
   text="Two legs. A: seeded search over schedules, select ties, render-tick placement (fake clock) and stage latencies of the real batchers + extractor + RunAggregationLoop with the histogram render callback; monitors for mutual exclusion of Sample/render, termination (no deadlock, no panic, fake-time bound), final render after the last sample and equal to a sequential reference, and monotone intermediate renders. B: the same worlds free-running under the Go race detector. One run in four is a command-line run of `rare histo|bars` over lines that trickle in across several render ticks: every number on the final screen and the footer totals must equal the reference (also with signed increments whose tail changes per-key counts but neither the total nor the number of groups). Evidence over explored runs, not proof.",
   ref="DESIGN.md section 5 C05, section 7, 13.8 and 13.12",
   note=NOTE + " Leg B: the interleaving is the real scheduler's (not tape-controlled); a report is sound, a clean leg is only as strong as the race detector's happens-before analysis over the executed accesses; simrt takes no lock and draws from no shared tape in that mode so that it adds no happens-before edges.",
   tech=TECH + "; plus a free-running -race leg over the same seeded worlds for the data-race clause")

CLAIMED["C15"] = dict(
   text="Seeded search over histories of append / pause / remove-after-drain / re-create applied by a simulated writer while the real notify and polling follow readers run under the tape-driven scheduler with the fake clock; at every Read return the delivered bytes must be a prefix of the appended bytes (no loss, duplicate or reordering; no EOF or error while the file exists), and within 10 simulated seconds after the last operation everything appended must have been delivered (plain follow after a final remove: io.EOF). One run in four drives batchers.TailFilesToChan over 1-3 followed files instead (source names, gap-free line numbers, lines a prefix of the complete lines appended, the 250ms time flush, channel close when every file ended), a third of those through the command line (`rare filter -l -f|-F [--poll] [--tail]` in-process: every printed `source line: text` against the appended streams, exit status and summary when plain follow ends, no return while a file is followed). Whether a re-created file gets the inode number of the removed one is decided by the tape (virtual file identity behind os.SameFile), and the writer can append right after a chosen system call of the reader (between two stats, between a read and the wait that follows). Evidence over explored runs, not proof.",
   ref="DESIGN.md section 5 C15, 13.7 and 13.12",
   note=NOTE + " The fsnotify/inotify stub is trusted to be faithful for create/write/remove on one directory (FIFO, no loss, coalescing of an event identical to the newest unread one, non-remove events dropped when the file is gone at processing time, as fsnotify v1.4.9 does). Real kernel timing is not covered.",
   tech="deterministic simulation with fault injection: real follow readers on real scratch files inside one testing/synctest bubble, stubbed inotify event queue, writer client and reader scheduled by one seeded tape, fake clock for poll delays, prefix invariant at every step plus bounded liveness, tape shrinking and fresh-process replay")

CLAIMED["C06"] = dict(
   text="Seeded search over directory trees x argument forms x -z/-R/--readers x one injected open or read failure, with the whole CLI (`rare filter`) running in-process under the tape-driven scheduler; oracle: own reference expansion of the arguments, per-input expected (source, line, text) sets (stdlib gzip on a private copy decides what -z delivers), open counts from the fs seam, `[Log]` lines naming each failing input, and the exit-status table; termination monitor catches leaked reader slots. Gzip files may have several members; trees may hold symbolic links (to a file, to a directory, dangling: -R may hand them out or leave them alone, the regular files next to them are read exactly once); a failure is reported once per mention; with one reader and one worker the same command must print the same bytes under another schedule; stdin may be a long stream from a producer that pauses (time flushes with partial batches, slow stages). Evidence over explored runs, not proof.",
   ref="DESIGN.md section 5 C06, 13.8 and 13.12",
   note=NOTE + " Oracles: stdlib compress/gzip for decompressed content, filepath.Match for one glob component, own tree walk. Content of a bit-flipped gzip stream is not checked (only that it is reported and the other inputs are complete).",
   tech=TECH)

CLAIMED["C03"] = dict(
   text="Seeded search over scenarios (corpus x aggregator command line) each executed in-process under 3-5 variants that must not matter (tuning flags, file order, division of lines among files, gzip, stdin, schedule, read latencies and therefore the number of intermediate renders in fake time, map-iteration salt). Kinds include histograms with --atleast and with the empty string as key, tables and heatmaps whose view is smaller than the data, and `reduce` with order-sensitive accumulators (one reader, one worker, the order of the lines kept, also through `-R` roots). Oracle 1: exit status, CSV bytes and snapshot output identical across variants. Oracle 2: the CSV, parsed by a strict RFC 4180 parser, the summary counts and the exit status equal an independent sequential fold (stdlib regexp + the world's own template evaluator). A free-running -race leg re-runs scenarios (same oracles) truly in parallel. Evidence over explored scenarios, not proof.",
   ref="DESIGN.md section 5 C03, 13.8, 13.13 and 13.15",
   note=NOTE + " Kept out on purpose: numeric/contextual/date sorts (C13's world), spark without --notruncate, zero/negative totals for bar-style renderers (C14), injected read errors (C06). One known finding (padding of table/heatmap/spark/bars depends on render cadence) is listed in known_findings.json.",
   tech=TECH + "; metamorphic comparison across seeded variants of one scenario" + RACE_TECH)

CLAIMED["C13"] = dict(
   text="Order-independence for every key set, the meaning of a mode for key families where it is not in doubt. Seeded search over scenarios (a multiset of keys/counts from comparator-stressing pools x histo/table/bars x sort mode and modifier), each run in-process under 4-6 variants that change only map-iteration salt, arrival order, schedule/worker count, division among files and read latencies (number of intermediate renders on the fake clock, which feeds the sorter instance a command keeps for life); the row/column label sequences of the final snapshots must be identical, `:reverse` must mirror, equivalent spellings must agree; for the key-based modes the screen of every periodic render (rebuilt through a hook in the terminal's WriteForLine) must order every pair of labels as the final output does. One scenario in three uses clean families (distinct integers/decimals, weekday/month names, dates of one layout, distinct totals) with independent sort modes for rows and columns; there the displayed order must equal the documented one (magnitude, calendar position, chronological, larger totals first, bytes). `rare reduce` (group order by key or by a --sort expression with ties, --sort-reverse) is included, as are row totals at the ends of int64 under the value sort, grouped arrival and sort names typed with capital letters (where the tree accepts them); a free-running -race leg runs key sets above a thousand (code that only goes parallel above a size threshold). Evidence over explored scenarios, not proof.",
   ref="DESIGN.md section 5 C13, 13.7 and 13.12",
   note=NOTE + " The meaning of a mode is decided only for the clean families (for arbitrary mixtures only order-independence, mirroring and spelling equivalence are). One known finding (--sort date with keys of mixed layouts) is listed in known_findings.json.",
   tech=TECH + "; metamorphic comparison of label sequences across seeded variants of one data set, reference order for clean key families" + RACE_TECH)

CLAIMED["C10"] = dict(
   text="Seeded search over templates (tree generator over the registered helper table, every helper taking its turn as outermost call; funcs files through the real loader with comments/blank lines/continuations, lines that are no definition, definitions calling earlier ones and user functions nested in their own arguments; math stages; lookup tables; time parsing with detected and explicit layouts; funcs files split in two or named through RARE_FUNC_FILES; {time live|delta|now}) evaluated by 1-4 workers that share one compiled, optimised expression and its context pools under the tape-driven scheduler with the fake clock advancing between lines; every emitted key is compared with a sequential un-optimised evaluation (funcs files: of the inlined tree with builtins only); live/delta must lie between the read and the consumption instant of their line, now must be the compile instant. A free-running -race leg covers pooled objects handed to two workers at once. One run in five goes through the command line: a funcs file loaded with --funcs under drawn global output flags (--noformat, --color/--nocolor, --nounicode, --notrim) must behave like its inlined body in `rare filter`, and `rare expression` must print the same text with and without --no-optimize, with the funcs file and inlined. Evidence over explored runs, not proof.",
   ref="DESIGN.md section 5 C10, 13.7, 13.12-13.15",
   note=NOTE + " Templates whose reference form does not compile or panics are redrawn (C08's subject); file-reading helpers (load/lookup/haskey), color and nested-loop templates that exceed the step budget are not exercised.",
   tech=TECH + "; plus a free-running -race leg for shared pools")

NA = {
 "C07": "pure: a sequential data structure folded over a sample list; no schedule, clock or fault in it (the end state for orders the pipeline produces is compared to an independent fold by C03's oracle)",
 "C08": "pure function of (template, context): nothing to schedule or fault; input generation would not be simulation",
 "C09": "pure parser round-trip over template strings",
 "C11": "documented semantics of scalar helpers: pure functions of their arguments",
 "C12": "dissect vs its specification is pure per (pattern, line); its slice-lifetime clause is exercised through C02's retained matches",
 "C14": "renderers are pure functions of aggregator state and scale",
 "C16": "validity/faithfulness of JSON text are pure functions of the captured bytes; the determinism clause (map order) is exercised replayably by C03's {.}-keyed scenario under the map-order seam (it found the member-order defect fixed in 55685c5)",
 "C17": "list semantics of array helpers are pure; the concurrent-evaluation clause is the shared-pool concurrency that C10's world and C05's race leg exercise",
 "C18": "calendar arithmetic over instants and zones is pure (no clock is read; now/live/delta belong to C10)",
 "C19": "formula parsing/evaluation vs a reference evaluator is pure",
 "C20": "the terminal writer's screen is a deterministic function of the sequence of (line, text) updates: no second thread, clock or fault in the property",
}

def main():
    assert not (set(CLAIMED) & set(NA))
    all_ids = ["C%02d" % i for i in range(1, 21)]
    assert sorted(list(CLAIMED) + list(NA)) == all_ids, sorted(list(CLAIMED) + list(NA))
    checks = []
    for pid in sorted(CLAIMED):
        c = CLAIMED[pid]
        checks.append({
            "property_id": pid,
            "quick_cmd": "/verif/bin/check run %s --tier quick" % pid,
            "thorough_cmd": "/verif/bin/check run %s --tier thorough" % pid,
            "evidence_file": "/verif/evidence/%s.json" % pid,
            "replay_cmd_template": "/verif/bin/check replay {path}",
            "engine": "simrt",
            "level_claimed": {"category": "exploration", "text": c["text"], "design_ref": c["ref"]},
            "level_note": c["note"],
            "technique": c["tech"],
        })
    m = {
        "version": 1,
        "setup_cmd": SETUP,
        "hooks": {
            "guard": "verif",
            "enable": "no hook lives in /repo: every check copies /repo's working tree to a scratch directory, rewrites it there with /verif/sim/tool/siminstr (go statements, channel/lock/atomic/WaitGroup/sleep/len(chan) yields, tape-ordered select, ordered map ranges, os.Open/os.Stat/os.File/os.SameFile/os.Stdin/signal.Notify seams, knobs for the scanner-buffer and index-pool constants), replaces github.com/fsnotify/fsnotify by /verif/sim/fsnotify, links /verif/sim/simrt, and builds with go1.26.8",
            "baseline_off_cmd": "cd /repo && go test -vet=off -count=1 -timeout 25m ./...",
            "source_commits": [],
            "add_only": True,
        },
        "engines": [{
            "name": "simrt", "path": "/verif/sim", "serves_properties": sorted(CLAIMED),
            "kind_free_text": "deterministic simulator: seeded tape (workload/faults/schedule streams), cooperative goroutine scheduler inside a testing/synctest bubble with fake clock, fs/stdin/signal/fsnotify seams, type-aware source instrumenter, tape shrinker, fresh-process replay",
        }],
        "checks": checks,
        "not_applicable": [{"property_id": k, "reason": NA[k]} for k in sorted(NA)],
        "notes": "Technique family: deterministic simulation with fault injection. See DESIGN.md. Exit codes: 0 held, 1 VIOLATION (replayed in a fresh process), 2 harness trouble.",
    }
    json.dump(m, open("/verif/MANIFEST.json", "w"), indent=1)
    open("/verif/MANIFEST.json", "a").write("\n")

if __name__ == "__main__":
    main()
