#!/bin/bash
# Runs the quick tier of every claimed property under several VERIF_SEED values and prints one line per (property, seed).
# A non-zero exit anywhere on the unchanged tree is a false alarm (or a genuine finding) to look at.
# usage: tools/multiseed.sh <first seed> <last seed> [props...]
set -u
cd "$(dirname "$0")/.."
export GOFLAGS=-mod=mod GOPROXY=off GOSUMDB=off GOTOOLCHAIN=local
GO=/opt/veriftools/go1.26.8/bin/go
(cd sim/tool && $GO build -o ../../bin/check ./cmd/check) || exit 2
if [ -n "${VP_RUN_REPO:-}" ]; then export VERIF_REPO=$VP_RUN_REPO; echo "using repo snapshot $VERIF_REPO"; fi
A=$1; B=$2; shift 2
PROPS=${@:-C04 C01 C02 C05 C06 C15 C03 C13 C10}
mkdir -p multiseed-logs
for seed in $(seq $A $B); do
  for p in $PROPS; do
    VERIF_SEED=$seed ./bin/check run $p --tier quick > multiseed-logs/$p-$seed.log 2>&1
    rc=$?
    echo "$p seed=$seed exit=$rc $(grep -E '^check .* tier=quick:' multiseed-logs/$p-$seed.log | cut -c1-160)"
    if [ $rc -ne 0 ]; then grep -vE '^\[Log\]|^  |^$' multiseed-logs/$p-$seed.log | tail -30 | cut -c1-1500; fi
  done
done
