#!/bin/bash
# usage: tools/sensw.sh <PROP> <patch.diff> [extra check args] - like sens.sh, but on a scratch worktree of /repo's HEAD (VERIF_REPO), so that
# /repo itself stays untouched and several experiments can run side by side. For experiments only: registered checks always run against /repo.
set -u
PROP=$1; PATCH=$(realpath "$2"); shift 2
W=/tmp/sensw-$$
git -C /repo worktree add -q --detach $W HEAD || exit 3
trap 'git -C /repo worktree remove --force $W 2>/dev/null' EXIT
git -C $W apply "$PATCH" || { echo "sensw: patch does not apply" >&2; exit 3; }
VERIF_REPO=$W VERIF_SHRINK_SECONDS=${VERIF_SHRINK_SECONDS:-8} /verif/bin/check run "$PROP" --tier quick "$@" > /tmp/sensw.$$.out 2>&1
rc=$?
grep -a -E "^violation class|^further violation|^check .* tier|HARNESS|KNOWN" /tmp/sensw.$$.out | cut -c1-240
echo "sensw: $PROP $(basename $PATCH) -> exit $rc"
rm -f /tmp/sensw.$$.out
exit $rc
