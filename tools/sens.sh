#!/bin/bash
# usage: tools/sens.sh <PROP> <patch.diff> [extra check args]  — applies a deliberate breakage to /repo, runs the quick check, reverts.
set -u
PROP=$1; PATCH=$2; shift 2
if ! git -C /repo diff --quiet; then echo "sens: /repo is dirty" >&2; exit 3; fi
git -C /repo apply "$(realpath "$PATCH")" || { echo "sens: patch does not apply" >&2; exit 3; }
( cd /repo && go build ./... ) || { echo "sens: does not build"; git -C /repo checkout -- . && git -C /repo clean -fdq; exit 3; }
/verif/bin/check run "$PROP" --tier quick "$@" > /tmp/sens.$$.out 2>&1
rc=$?
git -C /repo checkout -- . && git -C /repo clean -fdq
grep -E "^violation class|^VIOLATION|^check .* tier|HARNESS|KNOWN" /tmp/sens.$$.out | cut -c1-260
echo "sens: $PROP $(basename $PATCH) -> exit $rc"
rm -f /tmp/sens.$$.out
exit $rc
