#!/bin/bash
# Builds the driver in this tree (works in a vp-run snapshot) and runs the thorough tier of every claimed property.
# usage: tools/thorough_all.sh [seed ...]
set -u
cd "$(dirname "$0")/.."
export GOFLAGS=-mod=mod GOPROXY=off GOSUMDB=off GOTOOLCHAIN=local
GO=/opt/veriftools/go1.26.8/bin/go
(cd sim/tool && $GO build -o ../../bin/check ./cmd/check) || exit 2
# a snapshot of /repo's HEAD when started with `vp run --with-repo`
if [ -n "${VP_RUN_REPO:-}" ]; then export VERIF_REPO=$VP_RUN_REPO; echo "using repo snapshot $VERIF_REPO"; fi
SEEDS=${@:-7777}
for seed in $SEEDS; do
  for p in ${PROPS:-C10 C05 C01 C02 C15 C06 C03 C13 C04}; do
    echo "=== $p seed=$seed $(date +%T)"
    VERIF_SEED=$seed ./bin/check run $p --tier thorough 2>&1 | grep -vE "^  |^$|^Goroutine|^Previous|^Write at|^Read at|WARNING: DATA|^.Log. " | cut -c1-1500 | tail -25
    echo "=== $p seed=$seed exit=${PIPESTATUS[0]}"
  done
done
