#!/bin/bash
# usage: tools/seedwave.sh <wave letter> <outdir of one agent, e.g. /tmp/seedc/C06-out> <PROP>
# Reads metaN.json (place_at, run) written by the seeding agent and calls seedverify.sh for patch1/patch2.
set -u
WAVE=$1; OUT=$2; PROP=$3
for n in 1 2; do
  [ -f $OUT/patch$n.diff ] || { echo "no patch$n in $OUT"; continue; }
  read -r DEMO DEST CMD SLUG < <(python3 - "$OUT/meta$n.json" <<'PY'
import json,sys,re
m=json.load(open(sys.argv[1]))
d=m.get('demo',{})
slug=re.sub(r'[^a-z0-9]+','-',m.get('summary','x').lower())[:40].strip('-')
print(d.get('file'), d.get('place_at').split(' ')[0], '@@', slug)
PY
)
  CMD=$(python3 -c "import json,sys; print(json.load(open('$OUT/meta$n.json'))['demo']['run'])")
  SLUG=$(python3 -c "import json,re; m=json.load(open('$OUT/meta$n.json')); print(re.sub(r'[^a-z0-9]+','-',m.get('summary','x').lower())[:40].strip('-'))")
  echo "=== $PROP $WAVE$n $SLUG"
  /verif/tools/seedverify.sh $PROP "$WAVE$n-$SLUG" $OUT/patch$n.diff $OUT/$DEMO "$DEST" "$CMD" 2>&1 | tail -12
done
