#!/bin/bash
# usage: tools/seedverify.sh <PROP> <seedname> <patch.diff> <demo file> <dest path of demo in tree> <go test/run command (run in the tree root)>
# Confirms, in a scratch worktree: the patch applies and builds, the unedited suite still passes (baseline failure TestTryWriteCSV ignored),
# the demonstration fails with the patch and passes without it. Then runs the quick check against /repo with the patch applied and reverts.
set -u
PROP=$1; NAME=$2; PATCH=$(realpath "$3"); DEMO=$(realpath "$4"); DEST=$5; CMD=$6
export GOFLAGS=-mod=mod GOPROXY=off GOSUMDB=off
W=/tmp/seedverify-$$
git -C /repo worktree add -q --detach $W HEAD || exit 3
cleanup() { git -C /repo worktree remove --force $W 2>/dev/null; }
trap cleanup EXIT
cd $W
mkdir -p "$(dirname "$DEST")"; cp "$DEMO" "$DEST"
( eval "$CMD" ) > /tmp/seedverify.$$.clean 2>&1; clean_rc=$?
git apply "$PATCH" || { echo "seedverify: patch does not apply"; exit 3; }
go build ./... || { echo "seedverify: does not build"; exit 3; }
( eval "$CMD" ) > /tmp/seedverify.$$.patched 2>&1; patched_rc=$?
rm -f "$DEST"
suite=$(go test -vet=off -count=1 ./... 2>&1 | grep -E "^(--- FAIL|FAIL|panic)" | grep -v "TestTryWriteCSV" | grep -v "^FAIL$" | grep -v "rare/cmd/helpers" | head -5)
echo "seedverify: demo without patch rc=$clean_rc, with patch rc=$patched_rc; suite failures beyond baseline: [${suite}]"
tail -5 /tmp/seedverify.$$.patched | cut -c1-300
cd /verif
if [ -n "${SEEDVERIFY_WORKTREE:-}" ]; then
  # /repo itself is busy (a re-check of other seeded changes is running there): run the check against the patched scratch worktree
  git -C $W checkout -q -- . ; git -C $W clean -fdq; git -C $W apply "$PATCH" || exit 3
  VERIF_REPO=$W /verif/bin/check run "$PROP" --tier quick > /tmp/seedverify.$$.check 2>&1; check_rc=$?
  cleanup; trap - EXIT
  HOW="VERIF_REPO=<scratch worktree with the patch> /verif/bin/check run $PROP --tier quick (later re-checked against /repo itself by tools/seedrecheck.sh: recheck_exit)"
else
cleanup; trap - EXIT
if ! git -C /repo diff --quiet; then echo "seedverify: /repo dirty"; exit 3; fi
git -C /repo apply "$PATCH" || exit 3
/verif/bin/check run "$PROP" --tier quick > /tmp/seedverify.$$.check 2>&1; check_rc=$?
git -C /repo checkout -- . && git -C /repo clean -fdq
  HOW="git -C /repo apply, /verif/bin/check run $PROP --tier quick, git -C /repo checkout -- . && git -C /repo clean -fdq"
fi
grep -a -E "^violation class|^further violation|^check .* tier|HARNESS" /tmp/seedverify.$$.check | cut -c1-220
echo "seedverify: $PROP $NAME -> check exit $check_rc (demo clean=$clean_rc patched=$patched_rc)"
D=/verif/seeded/$PROP/$NAME; mkdir -p $D; cp "$PATCH" $D/patch.diff; cp "$DEMO" $D/$(basename "$DEST")
python3 - "$D" "$PROP" "$NAME" "$DEST" "$CMD" "$clean_rc" "$patched_rc" "$check_rc" "$suite" /tmp/seedverify.$$.check "$(dirname "$PATCH")" "$(basename "$PATCH")" "$HOW" <<'PY'
import json,sys,re,os
D,prop,name,dest,cmd,clean,patched,check,suite,checklog,srcdir,patchname,how=sys.argv[1:14]
meta={}
mi=os.path.join(srcdir, patchname.replace('patch','meta').replace('.diff','.json'))
if os.path.exists(mi):
    try: meta=json.load(open(mi))
    except Exception as e: meta={"raw":open(mi).read()}
classes=[l.strip()[:200] for l in open(checklog, errors='replace') if l.startswith('violation class') or l.startswith('further violation')]
json.dump({"property":prop,"name":name,"breaks":meta.get("summary"),"needs":meta.get("needs"),
  "demo":{"file":os.path.basename(dest),"place_at":dest,"command":cmd,"exit_without_patch":int(clean),"exit_with_patch":int(patched)},
  "suite_failures_beyond_baseline":suite,
  "what_i_ran":"tools/seedverify.sh: scratch worktree of /repo HEAD; demo run without and with the patch; go test -vet=off -count=1 ./... with the patch; then "+how,
  "check_exit":int(check),"check_classes":classes,"author_meta":meta}, open(os.path.join(D,'meta.json'),'w'), indent=1)
PY
rm -f /tmp/seedverify.$$.*
