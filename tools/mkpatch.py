#!/usr/bin/env python3
"""mkpatch.py <out.diff> <file> <<< python-literal list of (old,new) pairs — builds a patch against /repo without leaving it modified."""
import sys, subprocess, ast
out, path = sys.argv[1], sys.argv[2]
pairs = ast.literal_eval(sys.stdin.read())
p = '/repo/' + path
s = open(p).read()
for old, new in pairs:
    assert old in s, "not found: " + old[:60]
    s = s.replace(old, new, 1)
open(p, 'w').write(s)
d = subprocess.run(['git', '-C', '/repo', 'diff'], capture_output=True, text=True).stdout
open(out, 'w').write(d)
subprocess.run(['git', '-C', '/repo', 'checkout', '--', '.'])
print("wrote", out, len(d.splitlines()), "lines")
