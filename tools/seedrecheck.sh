#!/bin/bash
# usage: tools/seedrecheck.sh <seeded/PROP/name dir>...   — re-runs the quick check against /repo with the seeded patch applied and
# records the result in the seed's meta.json (fields recheck_exit, recheck_classes); reverts /repo afterwards.
set -u
for D in "$@"; do
  D=$(realpath "$D"); PROP=$(basename "$(dirname "$D")")
  if ! git -C /repo diff --quiet; then echo "/repo dirty"; exit 3; fi
  git -C /repo apply "$D/patch.diff" || { echo "$D: patch does not apply"; continue; }
  VERIF_SHRINK_SECONDS=${VERIF_SHRINK_SECONDS:-8} /verif/bin/check run "$PROP" --tier quick > /tmp/recheck.$$ 2>&1; rc=$?
  git -C /repo checkout -- . && git -C /repo clean -fdq
  python3 - "$D/meta.json" "$rc" /tmp/recheck.$$ <<'PY'
import json,sys
p,rc,log=sys.argv[1:4]
m=json.load(open(p))
m['recheck_exit']=int(rc)
m['recheck_classes']=[l.strip()[:200] for l in open(log, errors='replace') if l.startswith('violation class') or l.startswith('further violation') or l.startswith('HARNESS')]
json.dump(m,open(p,'w'),indent=1)
PY
  echo "$PROP $(basename $D) -> exit $rc: $(grep -a -E '^violation class' /tmp/recheck.$$ | sed 's/ (.*//' | sed 's/violation class //' | tr '\n' ' ' | cut -c1-200)"
  rm -f /tmp/recheck.$$
done
