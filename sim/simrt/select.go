package simrt

import "reflect"

// SelCase is one communication clause of a rewritten select statement.
type SelCase interface {
	try() bool
	rcase() reflect.SelectCase
	set(v reflect.Value, ok bool)
}

// RCase is a receive clause; after Select returned its index, V and Ok hold the received value.
type RCase[T any] struct {
	C  <-chan T
	V  T
	Ok bool
}

// Recv builds a receive clause.
func Recv[T any](c <-chan T) *RCase[T] { return &RCase[T]{C: c} }

func (k *RCase[T]) try() bool {
	select {
	case v, ok := <-k.C:
		k.V, k.Ok = v, ok
		return true
	default:
		return false
	}
}
func (k *RCase[T]) rcase() reflect.SelectCase {
	return reflect.SelectCase{Dir: reflect.SelectRecv, Chan: reflect.ValueOf(k.C)}
}
func (k *RCase[T]) set(v reflect.Value, ok bool) {
	k.Ok = ok
	if ok {
		k.V = v.Interface().(T)
	} else {
		var z T
		k.V = z
	}
}

// SCase is a send clause.
type SCase[T any] struct {
	C chan<- T
	V T
}

// Send builds a send clause.
func Send[T any](c chan<- T, v T) *SCase[T] { return &SCase[T]{C: c, V: v} }

func (k *SCase[T]) try() bool {
	select {
	case k.C <- k.V:
		return true
	default:
		return false
	}
}
func (k *SCase[T]) rcase() reflect.SelectCase {
	return reflect.SelectCase{Dir: reflect.SelectSend, Chan: reflect.ValueOf(k.C), Send: reflect.ValueOf(&k.V).Elem()}
}
func (k *SCase[T]) set(reflect.Value, bool) {}

var perms = map[int][][]int{}

func init() {
	for n := 2; n <= 4; n++ {
		var out [][]int
		var rec func(cur []int, used int)
		rec = func(cur []int, used int) {
			if len(cur) == n {
				out = append(out, append([]int(nil), cur...))
				return
			}
			for i := 0; i < n; i++ {
				if used&(1<<i) == 0 {
					rec(append(cur, i), used|1<<i)
				}
			}
		}
		rec(nil, 0)
		perms[n] = out
	}
}

// Select replaces a select statement with >= 2 communication clauses. The tape, not the Go
// runtime, breaks ties between ready clauses: a drawn priority order is tried non-blocking; only
// if nothing is ready does a blocking select run (and then, because one goroutine runs at a time,
// exactly one clause becomes ready first). Returns the index of the clause that proceeded, or -1
// for the default clause.
func Select(site string, hasDefault bool, cases ...SelCase) int {
	s := active.Load()
	var g *G
	if s != nil && s.Opts.Mode == ModeSched {
		g = s.me()
	}
	n := len(cases)
	if s != nil && g != nil && !g.exiting && s.Opts.Mode == ModeSched && !s.over.Load() {
		var order []int
		if n <= 4 {
			order = perms[n][s.Tape.S(len(perms[n]))]
		} else {
			st := s.Tape.S(n)
			for i := 0; i < n; i++ {
				order = append(order, (st+i)%n)
			}
		}
		ready := 0
		for _, i := range order {
			if cases[i].try() {
				if order[0] != 0 || i != 0 {
					Probe("select-nonfirst-order")
				}
				_ = ready
				return i
			}
		}
		if hasDefault {
			return -1
		}
	}
	rc := make([]reflect.SelectCase, 0, n+1)
	for _, c := range cases {
		rc = append(rc, c.rcase())
	}
	if hasDefault {
		rc = append(rc, reflect.SelectCase{Dir: reflect.SelectDefault})
	}
	i, v, ok := reflect.Select(rc)
	if i == n {
		return -1
	}
	if rc[i].Dir == reflect.SelectRecv {
		cases[i].set(v, ok)
	}
	return i
}
