module simrt

go 1.25
