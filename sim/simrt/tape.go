// Package simrt is the runtime of the deterministic simulator: the tape (the only
// source of choices), the cooperative scheduler that runs inside one testing/synctest
// bubble, and the seams (locks, select, map order, files, stdin, signals) that the
// instrumented copy of rare is rewritten to call.
package simrt

import "sync"

// Stream ids of the tape. Separate streams so that shrinking one does not shift the others.
const (
	SWork    = 0 // workload: corpus, expressions, flags, tree shape, histories
	SFault   = 1 // faults: chunk sizes, stalls, latencies, error positions, map-order salt
	SSched   = 2 // schedule: policy, each scheduling decision, each select order
	nStreams = 3
)

// Tape is the single source of every choice of a run. In generation mode each stream
// draws from its own splitmix64 generator (seeded from the run seed) and records the
// drawn values; in replay mode it returns the recorded values (reduced modulo the
// requested range) and 0 past the end. 0 is always the simplest choice.
type Tape struct {
	Seed   uint64
	Replay bool
	Rec    [nStreams][]uint32
	pos    [nStreams]int
	rng    [nStreams]uint64
	// Over counts draws past the end of a replayed stream (they returned 0).
	Over [nStreams]int
	mu   sync.Mutex // only contended in ModeFree, where goroutines draw concurrently
}

func mix64(z uint64) uint64 {
	z += 0x9e3779b97f4a7c15
	z = (z ^ (z >> 30)) * 0xbf58476d1ce4e5b9
	z = (z ^ (z >> 27)) * 0x94d049bb133111eb
	return z ^ (z >> 31)
}

// Mix derives a run seed from a batch seed, a property id and a run index.
func Mix(seed uint64, prop string, i uint64) uint64 {
	h := mix64(seed)
	for _, c := range []byte(prop) {
		h = mix64(h ^ uint64(c))
	}
	return mix64(h ^ mix64(i))
}

// NewTape returns a generating tape for seed.
func NewTape(seed uint64) *Tape {
	t := &Tape{Seed: seed}
	for i := range t.rng {
		t.rng[i] = mix64(seed ^ (uint64(i+1) * 0xa0761d6478bd642f))
	}
	return t
}

// ReplayTape returns a tape that replays the given streams.
func ReplayTape(seed uint64, rec [nStreams][]uint32) *Tape {
	t := &Tape{Seed: seed, Replay: true}
	for i := range rec {
		t.Rec[i] = append([]uint32(nil), rec[i]...)
	}
	return t
}

// Draw returns a value in [0,n) from stream st. n<=1 returns 0 without consuming.
func (t *Tape) Draw(st int, n int) int {
	if n <= 1 {
		return 0
	}
	t.mu.Lock()
	defer t.mu.Unlock()
	if t.Replay {
		if t.pos[st] >= len(t.Rec[st]) {
			t.Over[st]++
			return 0
		}
		v := t.Rec[st][t.pos[st]]
		t.pos[st]++
		return int(uint64(v) % uint64(n))
	}
	t.rng[st] += 0x9e3779b97f4a7c15
	z := t.rng[st]
	z = (z ^ (z >> 30)) * 0xbf58476d1ce4e5b9
	z = (z ^ (z >> 27)) * 0x94d049bb133111eb
	z ^= z >> 31
	v := uint32((z >> 16) % uint64(n))
	t.Rec[st] = append(t.Rec[st], v)
	t.pos[st]++
	return int(v)
}

// Used returns how many entries of stream st have been consumed.
func (t *Tape) Used(st int) int { return t.pos[st] }

// Convenience helpers on the three streams.

func (t *Tape) W(n int) int { return t.Draw(SWork, n) }
func (t *Tape) F(n int) int { return t.Draw(SFault, n) }
func (t *Tape) S(n int) int { return t.Draw(SSched, n) }

// WRange draws from the workload stream in [lo,hi].
func (t *Tape) WRange(lo, hi int) int { return lo + t.Draw(SWork, hi-lo+1) }

// FRange draws from the fault stream in [lo,hi].
func (t *Tape) FRange(lo, hi int) int { return lo + t.Draw(SFault, hi-lo+1) }

// WBool is true with probability num/den on the workload stream; 0 (replay default) is false.
func (t *Tape) WBool(num, den int) bool { return t.Draw(SWork, den) >= den-num }

// FBool is true with probability num/den on the fault stream; 0 (replay default) is false.
func (t *Tape) FBool(num, den int) bool { return t.Draw(SFault, den) >= den-num }

// Snapshot returns copies of the recorded streams trimmed to what was consumed.
func (t *Tape) Snapshot() [nStreams][]uint32 {
	var out [nStreams][]uint32
	for i := range t.Rec {
		n := t.pos[i]
		if n > len(t.Rec[i]) {
			n = len(t.Rec[i])
		}
		out[i] = append([]uint32(nil), t.Rec[i][:n]...)
	}
	return out
}
