package simrt

import (
	"cmp"
	"slices"
	"sync"
)

// MapKeys replaces `range m` over maps with ordered keys in rare's own packages: the keys are
// collected, sorted canonically and then permuted by a hash of (run's map salt, site, per-site
// iteration counter). Salt 0 (and no active simulation) gives the canonical order.
func MapKeys[M ~map[K]V, K cmp.Ordered, V any](site string, m M) []K {
	keys := make([]K, 0, len(m))
	for k := range m {
		keys = append(keys, k)
	}
	slices.Sort(keys)
	s := active.Load()
	if s == nil || s.Opts.Mode == ModeFree || s.Opts.MapSalt == 0 || len(keys) < 2 {
		return keys
	}
	s.mu.Lock()
	ctr := s.mapCtr[site]
	s.mapCtr[site] = ctr + 1
	s.mu.Unlock()
	h := s.Opts.MapSalt
	for i := 0; i < len(site); i++ {
		h = (h ^ uint64(site[i])) * 0x100000001b3
	}
	r := mix64(h ^ mix64(ctr))
	for i := len(keys) - 1; i > 0; i-- {
		r = mix64(r)
		j := int(r % uint64(i+1))
		keys[i], keys[j] = keys[j], keys[i]
	}
	ProbeN("map-range-permuted", 1)
	return keys
}

// Pool replaces sync.Pool in the instrumented tree. sync.Pool may hand back any item or none (per-P caches, emptied
// by the garbage collector): a nondeterminism the simulator has to own. Under the scheduler the pool is a LIFO
// stack and the tape decides, one time in eight, that an item was dropped meanwhile; in free-run mode it is the
// real sync.Pool.
type Pool struct {
	New   func() any
	real  sync.Pool
	items []any
	mu    sync.Mutex // outside a simulation (sequential worlds): a plain LIFO stack
	reg   bool
}

var (
	poolsMu sync.Mutex
	pools   []*Pool
)

func (p *Pool) register() {
	poolsMu.Lock()
	if !p.reg {
		p.reg = true
		pools = append(pools, p)
	}
	poolsMu.Unlock()
}

// ResetPools empties every pool of the instrumented tree: each simulated run starts like a fresh process.
func ResetPools() {
	poolsMu.Lock()
	for _, p := range pools {
		p.mu.Lock()
		p.items = nil
		p.mu.Unlock()
	}
	poolsMu.Unlock()
}

func (p *Pool) Get() any {
	s := active.Load()
	if s == nil || s.Opts.Mode != ModeFree {
		p.register()
	}
	if s == nil {
		p.mu.Lock()
		var v any
		if n := len(p.items); n > 0 {
			v = p.items[n-1]
			p.items = p.items[:n-1]
		}
		p.mu.Unlock()
		if v == nil && p.New != nil {
			v = p.New()
		}
		return v
	}
	if s.Opts.Mode == ModeFree {
		if v := p.real.Get(); v != nil {
			return v
		}
		if p.New != nil {
			return p.New()
		}
		return nil
	}
	p.mu.Lock()
	var v any
	if n := len(p.items); n > 0 {
		v = p.items[n-1]
		p.items = p.items[:n-1]
	}
	p.mu.Unlock()
	if v != nil && s.Tape.F(8) == 7 {
		v = nil // collected meanwhile
	}
	if v == nil && p.New != nil {
		v = p.New()
	}
	return v
}

func (p *Pool) Put(x any) {
	if x == nil {
		return
	}
	s := active.Load()
	if s == nil {
		p.register()
		p.mu.Lock()
		p.items = append(p.items, x)
		p.mu.Unlock()
		return
	}
	if s.Opts.Mode == ModeFree {
		p.real.Put(x)
		return
	}
	p.register()
	p.mu.Lock()
	p.items = append(p.items, x)
	p.mu.Unlock()
}
