package simrt

import (
	"cmp"
	"slices"
)

// MapKeys replaces `range m` over maps with ordered keys in rare's own packages: the keys are
// collected, sorted canonically and then permuted by a hash of (run's map salt, site, per-site
// iteration counter). Salt 0 (and no active simulation) gives the canonical order.
func MapKeys[M ~map[K]V, K cmp.Ordered, V any](site string, m M) []K {
	keys := make([]K, 0, len(m))
	for k := range m {
		keys = append(keys, k)
	}
	slices.Sort(keys)
	s := active.Load()
	if s == nil || s.Opts.Mode == ModeFree || s.Opts.MapSalt == 0 || len(keys) < 2 {
		return keys
	}
	s.mu.Lock()
	ctr := s.mapCtr[site]
	s.mapCtr[site] = ctr + 1
	s.mu.Unlock()
	h := s.Opts.MapSalt
	for i := 0; i < len(site); i++ {
		h = (h ^ uint64(site[i])) * 0x100000001b3
	}
	r := mix64(h ^ mix64(ctr))
	for i := len(keys) - 1; i > 0; i-- {
		r = mix64(r)
		j := int(r % uint64(i+1))
		keys[i], keys[j] = keys[j], keys[i]
	}
	ProbeN("map-range-permuted", 1)
	return keys
}
