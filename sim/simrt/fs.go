package simrt

import (
	"errors"
	"io"
	"os"
	"os/signal"
	"syscall"
	"time"
)

// ErrInjected is the read error the fault plan injects.
var ErrInjected = errors.New("simrt: injected I/O error")

// ReadPlan is the fault plan of one path (or of stdin).
type ReadPlan struct {
	Chunk       bool  // draw the size of every read (down to 1 byte)
	Stall       bool  // allow (0, nil) reads (only legal for generic io.Readers, never for files)
	LatPermille int   // probability (per mille) of a fake-time latency before a read
	LatMaxMs    int   // upper bound of that latency in fake milliseconds
	ErrAt       int64 // inject ErrInjected once this many bytes were delivered; < 0: never
	ErrWithData bool  // deliver the last bytes together with the error (n > 0, err != nil)
	OpenErr     bool  // fail the open
	// Rng, when set, replaces the shared tape as the source of this plan's draws. Worlds set it in
	// ModeFree so that readers do not synchronise with each other through the tape's mutex.
	Rng *LocalRand
}

// LocalRand is a private splitmix64 stream (seeded from the tape during set-up).
type LocalRand struct{ state uint64 }

// NewLocalRand draws a seed from the tape's fault stream.
func NewLocalRand(t *Tape) *LocalRand {
	return &LocalRand{state: uint64(t.F(1<<30))<<32 | uint64(t.F(1<<30))}
}

// N returns a value in [0,n).
func (r *LocalRand) N(n int) int {
	if n <= 1 {
		return 0
	}
	r.state += 0x9e3779b97f4a7c15
	z := r.state
	z = (z ^ (z >> 30)) * 0xbf58476d1ce4e5b9
	z = (z ^ (z >> 27)) * 0x94d049bb133111eb
	z ^= z >> 31
	return int((z >> 16) % uint64(n))
}

// FSEvent is one entry of the file-system log.
type FSEvent struct {
	Seq  int
	T    time.Duration // fake time since the start of the run
	G    int
	Op   string // open, open-fail, read, read-err, seek, close, stat
	Path string
	N    int
	Off  int64
}

// FS is the file-system seam: real files, per-path fault plans, and the log.
type FS struct {
	plans   map[string]*ReadPlan
	Default *ReadPlan
	Log     []FSEvent
	// Fired counts injected faults by kind.
	Fired map[string]int64

	// Hook, when set, runs right after every file-system call of the simulated program (op: open, stat, read, seek,
	// close), before the call returns: the world can let "another process" act between two system calls of rare.
	Hook func(op, path string)

	// Virtual file identity (what os.SameFile compares). Whether the kernel hands the inode number of a
	// deleted, closed file to the next file created is a nondeterminism of the real file system that the
	// simulator has to own: worlds register creations and removals, the tape decides about reuse, and
	// os.SameFile (rewritten to simrt.SameFile) compares virtual identities. Unregistered files keep the
	// kernel's identity.
	byIno  map[inoKey]*Ident
	freed  []*Ident
	nextID int
}

type inoKey struct{ dev, ino uint64 }

// Ident is the virtual identity of one file (one "inode").
type Ident struct {
	ID     int
	open   int
	linked bool
}

func keyOf(fi os.FileInfo) (inoKey, bool) {
	if st, ok := fi.Sys().(*syscall.Stat_t); ok {
		return inoKey{uint64(st.Dev), uint64(st.Ino)}, true
	}
	return inoKey{}, false
}

// RegisterCreate gives the file that was just created at path a virtual identity. With reuse it takes
// over the identity of the most recently freed file (deleted, no open handle) when there is one - the
// kernel recycling an inode number; it reports whether that happened.
func (s *Sim) RegisterCreate(path string, reuse bool) bool {
	fi, err := os.Stat(path)
	if err != nil {
		panic(err)
	}
	k, ok := keyOf(fi)
	if !ok {
		return false
	}
	s.mu.Lock()
	defer s.mu.Unlock()
	if s.FS.byIno == nil {
		s.FS.byIno = map[inoKey]*Ident{}
	}
	id := &Ident{linked: true}
	reused := false
	if reuse && len(s.FS.freed) > 0 {
		old := s.FS.freed[len(s.FS.freed)-1]
		s.FS.freed = s.FS.freed[:len(s.FS.freed)-1]
		id.ID = old.ID
		reused = true
	} else {
		s.FS.nextID++
		id.ID = s.FS.nextID
	}
	s.FS.byIno[k] = id
	return reused
}

// RegisterRemove must be called right before the file at path is removed.
func (s *Sim) RegisterRemove(path string) {
	fi, err := os.Stat(path)
	if err != nil {
		return
	}
	k, ok := keyOf(fi)
	if !ok {
		return
	}
	s.mu.Lock()
	defer s.mu.Unlock()
	if id := s.FS.byIno[k]; id != nil {
		id.linked = false
		delete(s.FS.byIno, k)
		if id.open == 0 {
			s.FS.freed = append(s.FS.freed, id)
		}
	}
}

func (s *Sim) identOf(fi os.FileInfo) *Ident {
	k, ok := keyOf(fi)
	if !ok {
		return nil
	}
	s.mu.Lock()
	defer s.mu.Unlock()
	return s.FS.byIno[k]
}

// simInfo is an os.FileInfo that carries the virtual identity.
type simInfo struct {
	os.FileInfo
	id *Ident
}

// SameFile replaces os.SameFile.
func SameFile(a, b os.FileInfo) bool {
	sa, oka := a.(*simInfo)
	sb, okb := b.(*simInfo)
	if oka && okb && sa.id != nil && sb.id != nil {
		return sa.id.ID == sb.id.ID
	}
	if oka {
		a = sa.FileInfo
	}
	if okb {
		b = sb.FileInfo
	}
	if (oka && sa.id != nil) != (okb && sb.id != nil) {
		// one registered, one not: different files by construction
		return false
	}
	return os.SameFile(a, b)
}

// SetPlan installs the fault plan for a path.
func (fs *FS) SetPlan(path string, p *ReadPlan) { fs.plans[path] = p }

func (s *Sim) fsLog(op, path string, n int, off int64) {
	if s.Opts.Mode == ModeFree {
		return
	}
	defer func() {
		if h := s.FS.Hook; h != nil {
			h(op, path)
		}
	}()
	g := -1
	if x := s.me(); x != nil {
		g = x.ID
	}
	s.mu.Lock()
	s.FS.Log = append(s.FS.Log, FSEvent{Seq: s.Steps, T: time.Since(s.start), G: g, Op: op, Path: path, N: n, Off: off})
	s.mu.Unlock()
}

func (s *Sim) fired(kind string) {
	if s.Opts.Mode == ModeFree {
		return
	}
	s.mu.Lock()
	if s.FS.Fired == nil {
		s.FS.Fired = map[string]int64{}
	}
	s.FS.Fired[kind]++
	s.mu.Unlock()
}

func (s *Sim) plan(path string) *ReadPlan {
	if s.Opts.Mode == ModeFree {
		// plans are installed before the run starts and are read-only afterwards
		if p, ok := s.FS.plans[path]; ok {
			return p
		}
		return s.FS.Default
	}
	s.mu.Lock()
	defer s.mu.Unlock()
	if p, ok := s.FS.plans[path]; ok {
		return p
	}
	return s.FS.Default
}

// File wraps *os.File. Read/Seek/Close are scheduling points and apply the fault plan.
type File struct {
	*os.File
	path       string
	plan       *ReadPlan
	off        int64 // bytes delivered through Read
	failed     bool
	id         *Ident // virtual identity, captured at open
	emptyReads int
}

// Stat returns the handle's file info with the identity the file had when it was opened.
func (f *File) Stat() (os.FileInfo, error) {
	if f == nil {
		return nil, os.ErrInvalid
	}
	fi, err := f.File.Stat()
	if err != nil || f.id == nil {
		return fi, err
	}
	return &simInfo{FileInfo: fi, id: f.id}, nil
}

// Open replaces os.Open in the packages that read input.
func Open(name string) (*File, error) {
	s := active.Load()
	if s == nil {
		f, err := os.Open(name)
		if err != nil {
			return nil, err
		}
		return &File{File: f, path: name}, nil
	}
	p := s.plan(name)
	if p != nil && p.OpenErr {
		s.fsLog("open-fail", name, 0, 0)
		s.fired("open-error")
		Yield("fs.open")
		return nil, &os.PathError{Op: "open", Path: name, Err: syscall.EACCES}
	}
	f, err := os.Open(name)
	if err != nil {
		s.fsLog("open-fail", name, 0, 0)
		Yield("fs.open")
		return nil, err
	}
	if s.Opts.Mode == ModeFree && p != nil && p.Rng != nil && p == s.FS.Default {
		// the default plan is shared by every file: give each open its own random stream (readers run in parallel)
		cp := *p
		st := p.Rng.state
		for i := 0; i < len(name); i++ {
			st = (st ^ uint64(name[i])) * 0x100000001b3
		}
		cp.Rng = &LocalRand{state: st}
		p = &cp
	}
	sf := &File{File: f, path: name, plan: p}
	if s.Opts.Mode != ModeFree {
		if fi, err := f.Stat(); err == nil {
			if id := s.identOf(fi); id != nil {
				s.mu.Lock()
				id.open++
				s.mu.Unlock()
				sf.id = id
			}
		}
	}
	s.fsLog("open", name, 0, 0)
	Yield("fs.open")
	return sf, nil
}

// Stat replaces os.Stat.
func Stat(name string) (os.FileInfo, error) {
	fi, err := os.Stat(name)
	if s := active.Load(); s != nil {
		if err == nil && s.Opts.Mode != ModeFree {
			if id := s.identOf(fi); id != nil {
				fi = &simInfo{FileInfo: fi, id: id}
			}
		}
		s.fsLog("stat", name, 0, 0)
		Yield("fs.stat")
	}
	return fi, err
}

// planRead applies a plan around one read of the underlying reader.
func planRead(s *Sim, p *ReadPlan, off *int64, failed *bool, path string, buf []byte, rd func([]byte) (int, error)) (int, error) {
	if p == nil || len(buf) == 0 {
		n, err := rd(buf)
		*off += int64(n)
		return n, err
	}
	if *failed {
		return 0, ErrInjected
	}
	F := s.Tape.F
	if p.Rng != nil {
		F = p.Rng.N
	}
	if p.LatPermille > 0 && F(1000) < p.LatPermille {
		ms := 1 + F(p.LatMaxMs)
		s.fired("read-latency")
		s.AddInjectedLat(time.Duration(ms) * time.Millisecond)
		time.Sleep(time.Duration(ms) * time.Millisecond)
		// several sleepers may wake at the same fake instant and would then run in parallel:
		// go back through the scheduler before drawing from the tape again
		Yield("fs.latency")
	}
	if p.Stall && F(8) == 7 {
		s.fired("read-stall-0-nil")
		return 0, nil
	}
	if p.Chunk && len(buf) > 1 {
		switch F(4) {
		case 1:
			buf = buf[:1]
			s.fired("read-chunk-1")
		case 2:
			m := 16
			if len(buf) < m {
				m = len(buf)
			}
			buf = buf[:1+F(m)]
			s.fired("read-chunk-small")
		case 3:
			m := len(buf)
			if m > 4096 {
				m = 4096
			}
			buf = buf[:1+F(m)]
			s.fired("read-chunk-any")
		}
	}
	if p.ErrAt >= 0 {
		rem := p.ErrAt - *off
		if rem <= 0 {
			*failed = true
			s.fired("read-error")
			s.fsLog("read-err", path, 0, *off)
			return 0, ErrInjected
		}
		if int64(len(buf)) >= rem {
			buf = buf[:rem]
			n, err := io.ReadFull(readerFunc(rd), buf)
			*off += int64(n)
			if err != nil {
				// the real content ended before the error position: plain EOF behaviour
				if err == io.ErrUnexpectedEOF {
					err = nil
					if n == 0 {
						err = io.EOF
					}
				}
				return n, err
			}
			if p.ErrWithData {
				*failed = true
				s.fired("read-error-with-data")
				s.fsLog("read-err", path, n, *off)
				return n, ErrInjected
			}
			return n, nil
		}
	}
	n, err := rd(buf)
	*off += int64(n)
	return n, err
}

type readerFunc func([]byte) (int, error)

func (f readerFunc) Read(p []byte) (int, error) { return f(p) }

func (f *File) Read(b []byte) (int, error) {
	if f == nil {
		return 0, os.ErrInvalid // like (*os.File)(nil)
	}
	if len(b) == 0 {
		// a caller that keeps asking for zero bytes makes no progress and never blocks: under the free-running legs that is a
		// real busy loop which no fake-time limit can end. Ten thousand such calls in a row are reported as what they are
		if f.emptyReads++; f.emptyReads > 10000 {
			panic("simrt: " + f.path + ": Read was called 10000 times in a row with an empty buffer - the reader does not terminate")
		}
	} else {
		f.emptyReads = 0
	}
	s := active.Load()
	if s == nil || f.plan == nil {
		n, err := f.File.Read(b)
		if s != nil {
			f.off += int64(n)
			s.fsLog("read", f.path, n, f.off)
			Yield("fs.read")
		}
		return n, err
	}
	n, err := planRead(s, f.plan, &f.off, &f.failed, f.path, b, f.File.Read)
	s.fsLog("read", f.path, n, f.off)
	Yield("fs.read")
	return n, err
}

func (f *File) Seek(offset int64, whence int) (int64, error) {
	if f == nil {
		return 0, os.ErrInvalid
	}
	r, err := f.File.Seek(offset, whence)
	if s := active.Load(); s != nil {
		if err == nil && f.plan != nil && f.plan.ErrAt >= 0 {
			f.off = r
			if r < f.plan.ErrAt {
				// a bad sector stays bad: reading again from before it delivers the bytes up to it again
				f.failed = false
			}
		}
		s.fsLog("seek", f.path, whence, r)
		Yield("fs.seek")
	}
	return r, err
}

func (f *File) Close() error {
	if f == nil {
		return os.ErrInvalid
	}
	err := f.File.Close()
	if s := active.Load(); s != nil {
		if f.id != nil {
			s.mu.Lock()
			if f.id.open > 0 {
				f.id.open--
				if f.id.open == 0 && !f.id.linked {
					s.FS.freed = append(s.FS.freed, f.id)
				}
			}
			s.mu.Unlock()
			f.id = nil
		}
		s.fsLog("close", f.path, 0, f.off)
		Yield("fs.close")
	}
	return err
}

// ScriptReader is a scripted io.ReadCloser (stdin, or any reader argument) under a plan.
type ScriptReader struct {
	Name   string
	Data   []byte
	Plan   *ReadPlan
	pos    int
	off    int64
	failed bool
	Closed bool
	// Delivered is what Read handed out so far.
	Delivered  int
	emptyReads int
}

func (r *ScriptReader) raw(b []byte) (int, error) {
	if r.pos >= len(r.Data) {
		return 0, io.EOF
	}
	n := copy(b, r.Data[r.pos:])
	r.pos += n
	return n, nil
}

func (r *ScriptReader) Read(b []byte) (int, error) {
	if len(b) == 0 {
		// see File.Read: a reader that keeps asking for zero bytes is a busy loop
		if r.emptyReads++; r.emptyReads > 10000 {
			panic("simrt: " + r.Name + ": Read was called 10000 times in a row with an empty buffer - the reader does not terminate")
		}
	} else {
		r.emptyReads = 0
	}
	s := active.Load()
	if s == nil {
		return r.raw(b)
	}
	n, err := planRead(s, r.Plan, &r.off, &r.failed, r.Name, b, r.raw)
	r.Delivered += n
	s.fsLog("read", r.Name, n, r.off)
	Yield("stdin.read")
	return n, err
}

func (r *ScriptReader) Close() error {
	r.Closed = true
	return nil
}

// Stdin replaces os.Stdin where rare reads its input stream.
func Stdin() io.ReadCloser {
	if s := active.Load(); s != nil && s.StdinR != nil {
		return s.StdinR
	}
	return os.Stdin
}

// SignalNotify replaces signal.Notify (the real one crashes inside a synctest bubble); the world can
// deliver a simulated signal with DeliverSignal.
func SignalNotify(c chan<- os.Signal, sig ...os.Signal) {
	s := active.Load()
	if s == nil {
		signal.Notify(c, sig...)
		return
	}
	s.mu.Lock()
	s.sigChans = append(s.sigChans, c)
	s.mu.Unlock()
}

// DeliverSignal sends sig to every channel registered through SignalNotify (non-blocking, like the runtime).
func DeliverSignal(sig os.Signal) {
	s := active.Load()
	if s == nil {
		return
	}
	s.mu.Lock()
	cs := append([]chan<- os.Signal(nil), s.sigChans...)
	s.mu.Unlock()
	for _, c := range cs {
		select {
		case c <- sig:
		default:
		}
	}
}
