package simrt

import (
	"fmt"
	"io"
	"os"
	"runtime"
	"sort"
	"strings"
	"sync"
	"sync/atomic"
	"testing"
	"testing/synctest"
	"time"
)

// Modes of a run.
const (
	// ModeSched: cooperative scheduling, one goroutine at a time, chosen by the tape.
	ModeSched = 1
	// ModeFree: goroutines run truly in parallel (used with -race); the tape still decides
	// workload, faults and the fake clock, but not the interleaving.
	ModeFree = 2
)

// G is one simulated goroutine.
type G struct {
	ID      int
	Role    string // spawn site
	wake    chan struct{}
	held    int // locks held; yields are suppressed while > 0
	site    string
	exiting bool
	prio    int
	done    bool
	nYield  uint32
}

// Opts configures a run.
type Opts struct {
	Mode      int
	MaxSteps  int
	IdleLimit time.Duration // fake time the system may be completely idle before it is called a deadlock
	FreeLimit time.Duration // ModeFree: fake time limit for main
	Trace     bool          // keep the resolved schedule trace
	MapSalt   uint64        // 0 = canonical map order
	// YieldLatPermille > 0: at a yield (no lock held) the goroutine sleeps a drawn fake duration of
	// 1..YieldLatMaxMs milliseconds with this probability ("any distribution of stage latencies").
	YieldLatPermille int
	YieldLatMaxMs    int
	// RecordTerm: keep every screen line the program writes (Sim.Term), see TermLine
	RecordTerm bool
	// Knobs overrides integer constants of rare that the instrumenter wrapped in KnobInt
	// (key: "<package path>.<constant name>").
	Knobs map[string]int
}

// Sim is the state of one run.
type Sim struct {
	Tape *Tape
	Opts Opts
	Term []TermEvent

	mu        sync.Mutex
	panicMu   sync.Mutex
	freeSalt  uint64
	byGoid    map[int64]*G
	gs        []*G
	runnable  []*G
	lockWait  []*G // goroutines waiting for a contended lock; made runnable by the next Unlock
	arrive    chan struct{}
	mainDone  bool
	over      atomic.Bool
	last      *G
	chaser    *G // policy 4
	chaseBack *G
	chaseLeft int
	policy    int
	stickyP   int
	chgDen    int
	nextLow   int
	mapCtr    map[string]uint64

	// results
	Steps       int
	MultiChoice int    // decisions with >= 2 runnable goroutines
	Hash        uint64 // hash of the sequence of (goroutine id, site) decisions
	TraceLog    []string
	Panics      []string
	EndReason   string // "main-returned" | "idle-deadlock" | "step-budget" | "free-timeout"
	Blocked     string // goroutine dump at deadlock / budget end
	SimElapsed  time.Duration
	InjectedLat time.Duration // sum of all fake latencies injected by plans and yields
	Goroutines  int
	start       time.Time
	probes      map[string]int64
	BubblePanic string

	// seams
	FS       *FS
	StdinR   io.ReadCloser
	sigChans []chan<- os.Signal
}

var active atomic.Pointer[Sim]

// Active returns the running simulation or nil.
func Active() *Sim { return active.Load() }

func goid() int64 {
	var buf [64]byte
	n := runtime.Stack(buf[:], false)
	// "goroutine 123 ["
	var id int64
	for i := 10; i < n; i++ {
		c := buf[i]
		if c < '0' || c > '9' {
			break
		}
		id = id*10 + int64(c-'0')
	}
	return id
}

func (s *Sim) me() *G {
	id := goid()
	s.mu.Lock()
	g := s.byGoid[id]
	s.mu.Unlock()
	return g
}

// Me returns the simulated goroutine id of the caller, or -1.
func Me() int {
	s := active.Load()
	if s == nil {
		return -1
	}
	if g := s.me(); g != nil {
		return g.ID
	}
	return -1
}

// TermEvent is one line written to rare's multi-line terminal: Step is the scheduler step during which it was
// written and Held says whether the writing goroutine held a lock - a periodic render runs under the output mutex,
// where yields are suppressed, so all lines of one such render share one Step.
type TermEvent struct {
	Step int
	Held bool
	Line int
	Text string
}

// TermLine is called first thing by every WriteForLine of rare/pkg/multiterm in the instrumented tree.
func TermLine(line int, text string) {
	s := active.Load()
	if s == nil || s.Opts.Mode == ModeFree || !s.Opts.RecordTerm {
		return
	}
	g := s.me()
	s.mu.Lock()
	s.Term = append(s.Term, TermEvent{Step: s.Steps, Held: g != nil && g.held > 0, Line: line, Text: text})
	s.mu.Unlock()
}

// Probe counts a "this rare condition was hit" event.
func Probe(name string) {
	s := active.Load()
	if s == nil || s.Opts.Mode == ModeFree {
		return
	}
	s.mu.Lock()
	s.probes[name]++
	s.mu.Unlock()
}

// ProbeN adds n to a probe counter.
func ProbeN(name string, n int64) {
	s := active.Load()
	if s == nil || s.Opts.Mode == ModeFree {
		return
	}
	s.mu.Lock()
	s.probes[name] += n
	s.mu.Unlock()
}

// Probes returns a copy of the probe counters.
func (s *Sim) Probes() map[string]int64 {
	s.mu.Lock()
	defer s.mu.Unlock()
	out := make(map[string]int64, len(s.probes))
	for k, v := range s.probes {
		out[k] = v
	}
	return out
}

// Seq returns the current global event sequence number (the scheduler step count).
func Seq() int {
	s := active.Load()
	if s == nil {
		return 0
	}
	s.mu.Lock()
	defer s.mu.Unlock()
	return s.Steps
}

func (g *G) exit() {
	g.exiting = true
	runtime.Goexit()
}

// Go starts f as a simulated goroutine. Every `go` statement of the instrumented tree calls this.
func Go(site string, f func()) {
	s := active.Load()
	if s == nil {
		go f()
		return
	}
	if s.Opts.Mode == ModeFree {
		// leg B: nothing of simrt may synchronise goroutines with each other (it would hide races)
		go func() {
			defer s.recoverFree(site)
			f()
		}()
		return
	}
	s.spawn(site, f, false)
}

func (s *Sim) recoverFree(site string) {
	if r := recover(); r != nil {
		buf := make([]byte, 8192)
		n := runtime.Stack(buf, false)
		s.panicMu.Lock()
		s.Panics = append(s.Panics, fmt.Sprintf("panic in goroutine (%s): %v\n%s", site, r, buf[:n]))
		s.panicMu.Unlock()
	}
}

func Go1[A any](site string, f func(A), a A) { Go(site, func() { f(a) }) }
func Go2[A, B any](site string, f func(A, B), a A, b B) {
	Go(site, func() { f(a, b) })
}
func Go3[A, B, C any](site string, f func(A, B, C), a A, b B, c C) {
	Go(site, func() { f(a, b, c) })
}
func Go4[A, B, C, D any](site string, f func(A, B, C, D), a A, b B, c C, d D) {
	Go(site, func() { f(a, b, c, d) })
}
func Go5[A, B, C, D, E any](site string, f func(A, B, C, D, E), a A, b B, c C, d D, e E) {
	Go(site, func() { f(a, b, c, d, e) })
}

func (s *Sim) spawn(site string, f func(), isMain bool) *G {
	s.mu.Lock()
	g := &G{ID: len(s.gs), Role: site, wake: make(chan struct{}, 1)}
	s.gs = append(s.gs, g)
	if s.Opts.Mode == ModeSched && s.policy == 2 {
		g.prio = 1000 + s.Tape.S(1000)
	}
	s.mu.Unlock()
	started := make(chan struct{})
	go func() {
		id := goid()
		s.mu.Lock()
		s.byGoid[id] = g
		s.mu.Unlock()
		close(started)
		defer func() {
			if r := recover(); r != nil {
				buf := make([]byte, 8192)
				n := runtime.Stack(buf, false)
				s.mu.Lock()
				s.Panics = append(s.Panics, fmt.Sprintf("panic in goroutine %d (%s): %v\n%s", g.ID, g.Role, r, buf[:n]))
				s.mu.Unlock()
			}
			s.mu.Lock()
			g.done = true
			delete(s.byGoid, id)
			if isMain {
				s.mainDone = true
			}
			s.mu.Unlock()
			if isMain {
				select {
				case s.arrive <- struct{}{}:
				default:
				}
			}
		}()
		if s.Opts.Mode == ModeSched {
			// park immediately: a new goroutine runs only when the tape picks it
			if s.over.Load() {
				g.exit()
			}
			s.park(g, "spawn:"+site)
		}
		f()
	}()
	// wait until the child is registered so that goid lookups are deterministic
	<-started
	return g
}

func (s *Sim) park(g *G, site string) {
	s.mu.Lock()
	g.site = site
	s.runnable = append(s.runnable, g)
	s.mu.Unlock()
	select {
	case s.arrive <- struct{}{}:
	default:
	}
	<-g.wake
	if s.over.Load() && !g.exiting {
		g.exit()
	}
}

// Yield is the scheduling point the instrumenter puts after every visible operation.
func Yield(site string) {
	s := active.Load()
	if s == nil {
		return
	}
	if s.Opts.Mode == ModeFree {
		// no shared state: the decision is a function of (goroutine, site, run)
		h := uint64(goid())*0x9e3779b97f4a7c15 ^ s.freeSalt
		for i := 0; i < len(site); i++ {
			h = (h ^ uint64(site[i])) * 0x100000001b3
		}
		if mix64(h)&7 == 0 {
			runtime.Gosched()
		}
		return
	}
	g := s.me()
	if g == nil || g.exiting {
		return
	}
	if s.over.Load() {
		g.exit()
	}
	if g.held > 0 {
		return
	}
	// park first: a goroutine that arrives here after waking from a fake-time sleep on its own may be
	// running in parallel with others that woke at the same instant; nothing may be drawn from the tape
	// before the scheduler has taken control again
	s.park(g, site)
	if s.Opts.YieldLatPermille > 0 && s.Tape.F(1000) < s.Opts.YieldLatPermille {
		d := time.Duration(1+s.Tape.F(s.Opts.YieldLatMaxMs)) * time.Millisecond
		s.mu.Lock()
		s.InjectedLat += d
		s.probes["yield-latency"]++
		s.mu.Unlock()
		time.Sleep(d)
		if s.over.Load() {
			g.exit()
		}
		s.park(g, site)
	}
}

// parkLockWait parks g until some lock is released; it is not runnable meanwhile, so a lock
// holder that sleeps (fake time) does not turn its waiters into a busy loop.
func (s *Sim) parkLockWait(g *G, site string) {
	s.mu.Lock()
	g.site = "lockwait:" + site
	s.lockWait = append(s.lockWait, g)
	s.mu.Unlock()
	<-g.wake
	if s.over.Load() && !g.exiting {
		g.exit()
	}
}

// KnobInt returns the run's override for a wrapped integer constant of rare, or the constant itself.
func KnobInt(name string, def int) int {
	if s := active.Load(); s != nil && s.Opts.Knobs != nil {
		if v, ok := s.Opts.Knobs[name]; ok && v > 0 {
			return v
		}
	}
	return def
}

// KnobDiv divides a pool size of rare by the run's divisor for that constructor (never below 1).
func KnobDiv(name string, v int) int {
	if s := active.Load(); s != nil && s.Opts.Knobs != nil {
		if d, ok := s.Opts.Knobs[name]; ok && d > 1 {
			if v/d >= 1 {
				return v / d
			}
			return 1
		}
	}
	return v
}

// Now returns the fake time elapsed since the start of the run.
func (s *Sim) Now() time.Duration { return time.Since(s.start) }

// AddInjectedLat accounts a latency a world injected itself.
func (s *Sim) AddInjectedLat(d time.Duration) {
	if s.Opts.Mode == ModeFree {
		return
	}
	s.mu.Lock()
	if s.Opts.Trace {
		s.TraceLog = append(s.TraceLog, fmt.Sprintf("    latency %v at t=%v (sum %v)", d, time.Since(s.start), s.InjectedLat+d))
	}
	s.InjectedLat += d
	s.mu.Unlock()
}

// Lock replaces X.Lock(): a scheduling point before the acquisition, then a TryLock loop that parks
// between attempts (a blocked sync.Mutex is not durably blocked under synctest).
func Lock(site string, try func() bool, lock func()) {
	s := active.Load()
	if s == nil {
		lock()
		return
	}
	if s.Opts.Mode == ModeFree {
		// a goroutine blocked in sync.Mutex.Lock is not durably blocked: if the holder sleeps on the
		// fake clock the bubble would never become idle. Spin on TryLock with a fake-time back-off.
		d := time.Microsecond
		for !try() {
			time.Sleep(d)
			if d < 2*time.Millisecond {
				d *= 2
			}
		}
		return
	}
	g := s.me()
	if g == nil || g.exiting {
		lock()
		return
	}
	if s.over.Load() {
		g.exit()
	}
	if g.held == 0 {
		s.park(g, site)
	}
	for !try() {
		Probe("lock-contended")
		s.parkLockWait(g, site)
	}
	g.held++
}

// Unlock replaces X.Unlock().
func Unlock(site string, unlock func()) {
	unlock()
	s := active.Load()
	if s == nil || s.Opts.Mode == ModeFree {
		return
	}
	g := s.me()
	if g == nil {
		return
	}
	if g.held > 0 {
		g.held--
	}
	s.mu.Lock()
	moved := len(s.lockWait) > 0
	if moved {
		s.runnable = append(s.runnable, s.lockWait...)
		s.lockWait = nil
	}
	s.mu.Unlock()
	if moved {
		// the unlocking goroutine may have woken from a fake-time sleep on its own (a holder that
		// slept under the lock): tell the scheduler that the runnable set changed
		select {
		case s.arrive <- struct{}{}:
		default:
		}
	}
	if g.held == 0 && !g.exiting {
		// a scheduling point right after the critical section: what this goroutine does next with a value it took out of
		// (or put back into) the protected state is not protected any more
		Yield(site)
	}
}

func (s *Sim) pick(n int, ids []*G) *G {
	// caller holds s.mu; ids sorted by ID
	if n == 1 {
		return ids[0]
	}
	s.MultiChoice++
	switch s.policy {
	case 1: // sticky
		if s.last != nil {
			for _, g := range ids {
				if g == s.last {
					if s.Tape.S(100) < s.stickyP {
						return g
					}
					break
				}
			}
		}
		return ids[s.Tape.S(n)]
	case 2: // priorities with change points
		best := ids[0]
		for _, g := range ids[1:] {
			if g.prio > best.prio {
				best = g
			}
		}
		if s.Tape.S(s.chgDen) == s.chgDen-1 {
			s.nextLow--
			best.prio = s.nextLow
		}
		return best
	case 3: // round robin
		if s.last != nil {
			for _, g := range ids {
				if g.ID > s.last.ID {
					return g
				}
			}
		}
		return ids[0]
	case 4: // twin chase: right after a goroutine has done a visible operation, let another goroutine that runs the same
		// code (same spawn site: another worker, another reader) run a burst of steps, then come back to the first one.
		// This is the shape of a lost update or a torn pair of stores: A between two of its operations, B through all of its own.
		if s.chaseLeft > 0 {
			for _, g := range ids {
				if g == s.chaser {
					s.chaseLeft--
					return g
				}
			}
			s.chaseLeft = 0
		}
		if b := s.chaseBack; b != nil {
			s.chaseBack = nil
			for _, g := range ids {
				if g == b {
					return g
				}
			}
		}
		if s.last != nil && s.Tape.S(4) == 0 {
			var twins []*G
			for _, g := range ids {
				if g != s.last && g.Role == s.last.Role {
					twins = append(twins, g)
				}
			}
			if len(twins) > 0 {
				c := twins[s.Tape.S(len(twins))]
				s.chaser, s.chaseLeft, s.chaseBack = c, s.Tape.S(10), s.last
				return c
			}
		}
		// otherwise: stay with the goroutine that ran last, three times in four
		if s.last != nil && s.Tape.S(4) != 0 {
			for _, g := range ids {
				if g == s.last {
					return g
				}
			}
		}
		return ids[s.Tape.S(n)]
	default:
		return ids[s.Tape.S(n)]
	}
}

func (s *Sim) loop(main func()) {
	start := time.Now()
	s.start = start
	s.arrive = make(chan struct{}, 1)
	if s.Opts.Mode == ModeFree {
		s.freeSalt = mix64(s.Tape.Seed)
		go func() {
			defer func() {
				// (recover works only when called by the deferred function itself)
				if r := recover(); r != nil {
					buf := make([]byte, 8192)
					n := runtime.Stack(buf, false)
					s.panicMu.Lock()
					s.Panics = append(s.Panics, fmt.Sprintf("panic in goroutine (main): %v\n%s", r, buf[:n]))
					s.panicMu.Unlock()
				}
				s.mu.Lock()
				s.mainDone = true
				s.mu.Unlock()
				select {
				case s.arrive <- struct{}{}:
				default:
				}
			}()
			main()
		}()
		lim := time.NewTimer(s.Opts.FreeLimit)
		for {
			s.mu.Lock()
			d := s.mainDone
			s.mu.Unlock()
			if d {
				s.EndReason = "main-returned"
				break
			}
			to := false
			select {
			case <-s.arrive:
			case <-lim.C:
				to = true
			}
			if to {
				s.EndReason = "free-timeout"
				s.Blocked = dumpAll()
				break
			}
		}
		lim.Stop()
		s.SimElapsed = time.Since(start)
		s.over.Store(true)
		return
	}
	// policy for this run
	s.policy = s.Tape.S(5)
	switch s.policy {
	case 1:
		s.stickyP = []int{50, 75, 90, 97}[s.Tape.S(4)]
	case 2:
		s.chgDen = []int{5, 20, 80}[s.Tape.S(3)]
	}
	s.spawn("main", main, true)
	idle := time.NewTimer(time.Hour)
	idle.Stop()
	for {
		synctest.Wait()
		select {
		case <-s.arrive:
		default:
		}
		s.mu.Lock()
		n := len(s.runnable)
		if n == 0 {
			done := s.mainDone
			s.mu.Unlock()
			if done {
				s.EndReason = "main-returned"
				break
			}
			// nothing runnable: let the fake clock run to the next timer
			idle.Reset(s.Opts.IdleLimit)
			fired := false
			select {
			case <-s.arrive:
			case <-idle.C:
				fired = true
			}
			if !fired {
				idle.Stop()
				continue
			}
			s.EndReason = "idle-deadlock"
			s.Blocked = dumpAll()
			break
		}
		if s.Steps >= s.Opts.MaxSteps {
			s.mu.Unlock()
			s.EndReason = "step-budget"
			s.Blocked = dumpAll()
			break
		}
		sort.Slice(s.runnable, func(i, j int) bool { return s.runnable[i].ID < s.runnable[j].ID })
		g := s.pick(n, s.runnable)
		for i, x := range s.runnable {
			if x == g {
				s.runnable = append(s.runnable[:i], s.runnable[i+1:]...)
				break
			}
		}
		s.Steps++
		s.last = g
		h := s.Hash ^ uint64(g.ID+1)
		for i := 0; i < len(g.site); i++ {
			h = (h ^ uint64(g.site[i])) * 0x100000001b3
		}
		s.Hash = h*0x9e3779b97f4a7c15 + 1
		if s.Opts.Trace {
			s.TraceLog = append(s.TraceLog, fmt.Sprintf("%d t=%v g%d[%s] @%s (of %d)", s.Steps, time.Since(start), g.ID, shortRole(g.Role), g.site, n))
		}
		s.mu.Unlock()
		g.wake <- struct{}{}
	}
	s.SimElapsed = time.Since(start)
	s.mu.Lock()
	s.Goroutines = len(s.gs)
	parked := append([]*G(nil), s.runnable...)
	parked = append(parked, s.lockWait...)
	s.runnable = nil
	s.lockWait = nil
	s.mu.Unlock()
	s.over.Store(true)
	// release whoever is still parked so that it can unwind
	for _, g := range parked {
		select {
		case g.wake <- struct{}{}:
		default:
		}
	}
}

func shortRole(r string) string {
	if i := strings.LastIndex(r, "/"); i >= 0 {
		return r[i+1:]
	}
	return r
}

func dumpAll() string {
	buf := make([]byte, 1<<18)
	n := runtime.Stack(buf, true)
	out := string(buf[:n])
	// keep only goroutines of the newest bubble (older bubbles hold abandoned goroutines of earlier runs)
	blocks := strings.Split(out, "\n\n")
	maxB := -1
	bubbleOf := func(blk string) int {
		i := strings.Index(blk, "synctest bubble ")
		if i < 0 {
			return -1
		}
		b := 0
		for _, c := range blk[i+len("synctest bubble "):] {
			if c < '0' || c > '9' {
				break
			}
			b = b*10 + int(c-'0')
		}
		return b
	}
	for _, blk := range blocks {
		if b := bubbleOf(blk); b > maxB {
			maxB = b
		}
	}
	var keep []string
	for _, blk := range blocks {
		if maxB >= 0 && bubbleOf(blk) == maxB {
			lines := strings.Split(blk, "\n")
			if len(lines) > 12 {
				lines = lines[:12]
			}
			keep = append(keep, strings.Join(lines, "\n"))
		}
	}
	if len(keep) > 24 {
		keep = keep[:24]
	}
	return strings.Join(keep, "\n\n")
}

// NewSim prepares a simulation; the world configures FS plans, stdin etc. and then calls Run.
func NewSim(tape *Tape, opts Opts) *Sim {
	if opts.MaxSteps == 0 {
		opts.MaxSteps = 200000
	}
	if opts.IdleLimit == 0 {
		opts.IdleLimit = time.Hour
	}
	if opts.FreeLimit == 0 {
		opts.FreeLimit = time.Hour
	}
	return &Sim{Tape: tape, Opts: opts, byGoid: map[int64]*G{}, probes: map[string]int64{}, mapCtr: map[string]uint64{}, nextLow: 1000,
		FS: &FS{plans: map[string]*ReadPlan{}}}
}

// Run executes main as simulated goroutine 0 inside a fresh synctest bubble. It never calls
// t.Error/t.Fatal: verdicts are the caller's business.
func (s *Sim) Run(t *testing.T, main func()) *Sim {
	func() {
		defer func() {
			if r := recover(); r != nil {
				s.BubblePanic = fmt.Sprint(r)
			}
			active.Store(nil)
		}()
		synctest.Test(t, func(t *testing.T) {
			active.Store(s)
			s.loop(main)
		})
	}()
	active.Store(nil)
	return s
}

// Run is NewSim(...).Run(...).
func Run(t *testing.T, tape *Tape, opts Opts, main func()) *Sim {
	return NewSim(tape, opts).Run(t, main)
}

// Deferred replaces `defer X.m()` for visible operations without arguments (wg.Done): the method
// value was bound at defer time, as in the original.
func Deferred(site string, f func()) {
	f()
	Yield(site)
}

// DeferClose replaces `defer close(c)`.
// DeferredN run a deferred visible operation that takes arguments (bound at defer time) and yield after it.
func Deferred1[A any](site string, f func(A), a A)            { f(a); Yield(site) }
func Deferred2[A, B any](site string, f func(A, B), a A, b B) { f(a, b); Yield(site) }
func Deferred3[A, B, C any](site string, f func(A, B, C), a A, b B, c C) {
	f(a, b, c)
	Yield(site)
}
func Deferred1R[A, R any](site string, f func(A) R, a A)            { f(a); Yield(site) }
func Deferred2R[A, B, R any](site string, f func(A, B) R, a A, b B) { f(a, b); Yield(site) }
func Deferred3R[A, B, C, R any](site string, f func(A, B, C) R, a A, b B, c C) {
	f(a, b, c)
	Yield(site)
}

func DeferClose[T any](site string, c chan<- T) {
	close(c)
	Yield(site)
}
