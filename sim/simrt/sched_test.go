package simrt

import (
	"fmt"
	"sync"
	"testing"
	"time"
)

// toy pipeline of rare's shape, hand-instrumented the way siminstr does it
func toy(out *[]string, leak bool) func() {
	return func() {
		in := make(chan int, 2)
		res := make(chan int, 1)
		done := make(chan bool)
		var mu sync.Mutex
		var wg sync.WaitGroup
		for p := 0; p < 2; p++ {
			wg.Add(1)
			Go1("prod", func(p int) {
				defer func() { wg.Done(); Yield("wgdone") }()
				for i := 0; i < 5; i++ {
					time.Sleep(30 * time.Millisecond)
					Yield("sleep")
					in <- p*100 + i
					Yield("send")
				}
			}, p)
		}
		Go("closer", func() { wg.Wait(); Yield("wait"); close(in); Yield("close") })
		var wg2 sync.WaitGroup
		for w := 0; w < 3; w++ {
			wg2.Add(1)
			Go("worker", func() {
				defer func() { wg2.Done(); Yield("wgdone") }()
				for {
					v, ok := <-in
					Yield("recv")
					if !ok {
						return
					}
					res <- v
					Yield("send2")
				}
			})
		}
		Go("closer2", func() { wg2.Wait(); Yield("w"); close(res); Yield("c") })
		Go("ticker", func() {
			for {
				k0 := Recv(done)
				k1 := Recv(time.After(100 * time.Millisecond))
				switch Select("sel", false, k0, k1) {
				case 0:
					Yield("seldone")
					return
				case 1:
					Yield("seltick")
					Lock("l", mu.TryLock, mu.Lock)
					*out = append(*out, fmt.Sprintf("tick@%v", time.Now().UnixMilli()%100000))
					Unlock("l", mu.Unlock)
				}
			}
		})
		if leak {
			Go("leaker", func() { c := make(chan int); <-c })
			Go("poller", func() {
				for {
					time.Sleep(250 * time.Millisecond)
					Yield("poll")
				}
			})
		}
		for v := range res {
			Yield("range")
			Lock("l", mu.TryLock, mu.Lock)
			*out = append(*out, fmt.Sprint(v))
			Unlock("l", mu.Unlock)
		}
		Yield("rangeend")
		done <- true
		Yield("done")
	}
}

func TestToyDeterminism(t *testing.T) {
	distinct := map[uint64]bool{}
	t0 := time.Now()
	for seed := uint64(1); seed <= 200; seed++ {
		var o1, o2 []string
		s1 := Run(t, NewTape(seed), Opts{Mode: ModeSched, Trace: true}, toy(&o1, seed%2 == 0))
		s2 := Run(t, NewTape(seed), Opts{Mode: ModeSched, Trace: true}, toy(&o2, seed%2 == 0))
		if s1.Hash != s2.Hash || fmt.Sprint(o1) != fmt.Sprint(o2) || fmt.Sprint(s1.TraceLog) != fmt.Sprint(s2.TraceLog) {
			t.Fatalf("seed %d diverged\n%v\n%v", seed, o1, o2)
		}
		if s1.EndReason != "main-returned" || len(s1.Panics) > 0 {
			t.Fatalf("seed %d: %s %v bp=%s", seed, s1.EndReason, s1.Panics, s1.BubblePanic)
		}
		n := 0
		for _, x := range o1 {
			if len(x) < 4 || x[:4] != "tick" {
				n++
			}
		}
		if n != 10 {
			t.Fatalf("seed %d: %d values: %v", seed, n, o1)
		}
		// replay from the recorded tape
		var o3 []string
		s3 := Run(t, ReplayTape(seed, s1.Tape.Snapshot()), Opts{Mode: ModeSched}, toy(&o3, seed%2 == 0))
		if s3.Hash != s1.Hash || fmt.Sprint(o1) != fmt.Sprint(o3) {
			t.Fatalf("seed %d replay diverged", seed)
		}
		distinct[s1.Hash] = true
		if seed == 1 {
			t.Logf("steps=%d multi=%d elapsed=%v gor=%d bp=%q out=%v", s1.Steps, s1.MultiChoice, s1.SimElapsed, s1.Goroutines, s1.BubblePanic, o1)
		}
	}
	t.Logf("distinct %d/200, %v per run", len(distinct), time.Since(t0)/600)
}

func TestToyDeadlock(t *testing.T) {
	s := Run(t, NewTape(1), Opts{Mode: ModeSched}, func() {
		c := make(chan int)
		Go("a", func() { time.Sleep(time.Second); Yield("s") })
		<-c
	})
	if s.EndReason != "idle-deadlock" {
		t.Fatalf("got %s", s.EndReason)
	}
	t.Logf("elapsed %v blocked:\n%s\nbp=%s", s.SimElapsed, s.Blocked, s.BubblePanic)
}

func TestToyFree(t *testing.T) {
	for seed := uint64(1); seed <= 20; seed++ {
		var o []string
		s := Run(t, NewTape(seed), Opts{Mode: ModeFree}, toy(&o, true))
		if s.EndReason != "main-returned" {
			t.Fatalf("free: %s", s.EndReason)
		}
	}
}
