// Package siminstr rewrites a scratch copy of rare so that every goroutine spawn, channel
// operation, lock, atomic, wait, sleep, select tie, ordered-key map range and input file access
// goes through simrt (see DESIGN.md section 3.3). It is type-aware: rules key on types and
// package paths, not on names, and apply to whatever the tree looks like at check time.
// Anything it recognises but cannot transform is a hard error (the driver exits 2).
package siminstr

import (
	"bytes"
	"fmt"
	"go/ast"
	"go/printer"
	"go/token"
	"go/types"
	"os"
	"path/filepath"
	"sort"
	"strconv"
	"strings"

	"golang.org/x/tools/go/ast/astutil"
	"golang.org/x/tools/go/packages"
)

// Site is one instrumented location.
type Site struct {
	Site string `json:"site"`
	Kind string `json:"kind"`
}

// Result is what Instrument reports.
type Result struct {
	Sites        []Site
	Files        int
	Uncontrolled []string // map ranges left alone (non-orderable keys)
}

type instr struct {
	root  string
	fset  *token.FileSet
	info  *types.Info
	pkg   *packages.Package
	file  *ast.File
	rel   string
	sites []Site
	errs  []string
	unc   []string
	n     int
	dirty bool
	fsPkg bool // package whose os.Open/os.Stat/os.File go through the fs seam
}

var fsSeamPkgs = map[string]bool{
	"rare/pkg/extractor/batchers": true,
	"rare/pkg/followreader":       true,
}

var skipPkgPrefix = []string{"rare/pkg/testutil"}

// Instrument rewrites the tree under root in place.
func Instrument(root string, goBinDir string) (*Result, error) {
	env := append(os.Environ(), "GOFLAGS=-mod=mod", "GOPROXY=off", "GOSUMDB=off", "GOTOOLCHAIN=local")
	if goBinDir != "" {
		env = append(env, "PATH="+goBinDir+":"+os.Getenv("PATH"))
	}
	cfg := &packages.Config{
		Mode: packages.NeedName | packages.NeedFiles | packages.NeedSyntax | packages.NeedTypes | packages.NeedTypesInfo | packages.NeedImports | packages.NeedCompiledGoFiles,
		Dir:  root,
		Env:  env,
	}
	pkgs, err := packages.Load(cfg, "./...")
	if err != nil {
		return nil, fmt.Errorf("packages.Load: %w", err)
	}
	res := &Result{}
	var allErrs []string
	for _, p := range pkgs {
		for _, e := range p.Errors {
			allErrs = append(allErrs, "load: "+e.Error())
		}
	}
	if len(allErrs) > 0 {
		return nil, fmt.Errorf("tree does not type-check:\n%s", strings.Join(allErrs, "\n"))
	}
	sort.Slice(pkgs, func(i, j int) bool { return pkgs[i].PkgPath < pkgs[j].PkgPath })
	for _, p := range pkgs {
		skip := false
		for _, pre := range skipPkgPrefix {
			if strings.HasPrefix(p.PkgPath, pre) {
				skip = true
			}
		}
		if skip {
			continue
		}
		for i, f := range p.Syntax {
			name := p.CompiledGoFiles[i]
			if strings.HasSuffix(name, "_test.go") || !strings.HasPrefix(name, root) {
				continue
			}
			rel, _ := filepath.Rel(root, name)
			in := &instr{root: root, fset: p.Fset, info: p.TypesInfo, pkg: p, file: f, rel: rel, fsPkg: fsSeamPkgs[p.PkgPath]}
			in.rewriteFile()
			allErrs = append(allErrs, in.errs...)
			res.Uncontrolled = append(res.Uncontrolled, in.unc...)
			if !in.dirty {
				continue
			}
			src, _ := os.ReadFile(name)
			if bytes.Contains(src, []byte("//go:embed")) || bytes.Contains(src, []byte("//go:linkname")) || bytes.Contains(src, []byte("import \"C\"")) {
				allErrs = append(allErrs, rel+": needs instrumentation but carries compiler directives")
				continue
			}
			// keep only comments above the package clause (build constraints)
			var keep []*ast.CommentGroup
			for _, cg := range f.Comments {
				if cg.End() < f.Package {
					keep = append(keep, cg)
				}
			}
			f.Comments = keep
			ast.Inspect(f, func(n ast.Node) bool {
				switch x := n.(type) {
				case *ast.FuncDecl:
					x.Doc = nil
				case *ast.GenDecl:
					x.Doc = nil
				case *ast.Field:
					x.Doc, x.Comment = nil, nil
				case *ast.TypeSpec:
					x.Doc, x.Comment = nil, nil
				case *ast.ValueSpec:
					x.Doc, x.Comment = nil, nil
				case *ast.ImportSpec:
					x.Doc, x.Comment = nil, nil
				}
				return true
			})
			astutil.AddNamedImport(p.Fset, f, "simrt", "simrt")
			for _, imp := range []string{"os", "os/signal", "sync"} {
				if !astutil.UsesImport(f, imp) {
					astutil.DeleteImport(p.Fset, f, imp)
				}
			}
			var buf bytes.Buffer
			if err := (&printer.Config{Mode: printer.UseSpaces | printer.TabIndent, Tabwidth: 8}).Fprint(&buf, p.Fset, f); err != nil {
				allErrs = append(allErrs, rel+": print: "+err.Error())
				continue
			}
			if err := os.WriteFile(name, buf.Bytes(), 0o644); err != nil {
				return nil, err
			}
			res.Files++
			res.Sites = append(res.Sites, in.sites...)
		}
	}
	if len(allErrs) > 0 {
		return nil, fmt.Errorf("cannot instrument:\n%s", strings.Join(allErrs, "\n"))
	}
	return res, nil
}

func (in *instr) site(pos token.Pos, kind string) string {
	p := in.fset.Position(pos)
	s := in.rel + ":" + strconv.Itoa(p.Line)
	in.sites = append(in.sites, Site{Site: s, Kind: kind})
	in.dirty = true
	return s
}

func (in *instr) fail(pos token.Pos, msg string) {
	p := in.fset.Position(pos)
	in.errs = append(in.errs, fmt.Sprintf("%s:%d: %s", in.rel, p.Line, msg))
}

func (in *instr) tmp(prefix string) *ast.Ident {
	in.n++
	return ast.NewIdent(fmt.Sprintf("_sim%s%d", prefix, in.n))
}

// ---- small AST builders ----

func sel(pkg, name string) ast.Expr { return &ast.SelectorExpr{X: ast.NewIdent(pkg), Sel: ast.NewIdent(name)} }
func strLit(s string) ast.Expr    { return &ast.BasicLit{Kind: token.STRING, Value: strconv.Quote(s)} }
func call(fun ast.Expr, args ...ast.Expr) *ast.CallExpr {
	return &ast.CallExpr{Fun: fun, Args: args}
}
func yieldStmt(site string) ast.Stmt {
	return &ast.ExprStmt{X: call(sel("simrt", "Yield"), strLit(site))}
}
func boolLit(b bool) ast.Expr {
	if b {
		return ast.NewIdent("true")
	}
	return ast.NewIdent("false")
}

// ---- file level ----

func (in *instr) rewriteFile() {
	// expression-level replacements first (fs seam, signals)
	in.replaceSeams()
	for _, d := range in.file.Decls {
		switch x := d.(type) {
		case *ast.FuncDecl:
			if x.Body != nil {
				in.block(x.Body)
				in.termHook(x)
			}
		case *ast.GenDecl:
			// function literals in package-level var initialisers
			in.exprLits(x)
		}
	}
}

// termHook: every method `WriteForLine(line int, text string)` of rare/pkg/multiterm (the one place all renderers write
// a screen line through) reports the line to simrt first, so that a world can reconstruct the screen of every
// intermediate render. Purely observational; a tree without such a method simply has no hook.
func (in *instr) termHook(fd *ast.FuncDecl) {
	if in.pkg.PkgPath != "rare/pkg/multiterm" || fd.Recv == nil || fd.Name.Name != "WriteForLine" || fd.Type.Params == nil {
		return
	}
	var names []*ast.Ident
	var kinds []string
	for _, f := range fd.Type.Params.List {
		t := in.info.TypeOf(f.Type)
		if t == nil {
			return
		}
		for _, n := range f.Names {
			names = append(names, n)
			kinds = append(kinds, t.String())
		}
	}
	if len(names) != 2 || kinds[0] != "int" || kinds[1] != "string" || names[0].Name == "_" || names[1].Name == "_" {
		return
	}
	in.site(fd.Pos(), "term-line")
	hook := &ast.ExprStmt{X: call(sel("simrt", "TermLine"), ast.NewIdent(names[0].Name), ast.NewIdent(names[1].Name))}
	fd.Body.List = append([]ast.Stmt{hook}, fd.Body.List...)
}

func isSimrtCall(c *ast.CallExpr) bool {
	se, ok := c.Fun.(*ast.SelectorExpr)
	if !ok {
		return false
	}
	x, ok := se.X.(*ast.Ident)
	return ok && x.Name == "simrt"
}

func (in *instr) objPkgPath(id *ast.Ident) (string, string) {
	obj := in.info.Uses[id]
	if obj == nil || obj.Pkg() == nil {
		return "", ""
	}
	return obj.Pkg().Path(), obj.Name()
}

// knobConsts are package-level integer constants of rare that size buffers; every use is wrapped in
// simrt.KnobInt so that a world can vary them per run (a constant too large for the slow path to run
// is the classic blind spot). Outside a simulation, or when a world sets nothing, the constant stays.
var knobConsts = map[string]bool{
	"rare/pkg/extractor/batchers.ReadAheadBufferSize": true,
}

// knobSizeArgs are constructors of rare whose first argument sizes a pool; the argument is wrapped in
// simrt.KnobDiv so that a world can shrink the pool (refills then happen after a few matches
// instead of after a thousand).
var knobSizeArgs = map[string]bool{
	"rare/pkg/slicepool.NewIntPool": true,
}

// constContext collects the identifiers that sit where Go demands a constant expression (a const declaration, an
// array length): a knob cannot be inserted there.
func constContext(f *ast.File) map[token.Pos]bool {
	out := map[token.Pos]bool{}
	mark := func(n ast.Node) {
		if n == nil {
			return
		}
		ast.Inspect(n, func(x ast.Node) bool {
			if id, ok := x.(*ast.Ident); ok {
				out[id.Pos()] = true
			}
			return true
		})
	}
	ast.Inspect(f, func(x ast.Node) bool {
		switch v := x.(type) {
		case *ast.GenDecl:
			if v.Tok == token.CONST {
				mark(v)
				return false
			}
		case *ast.ArrayType:
			if v.Len != nil {
				mark(v.Len)
			}
		}
		return true
	})
	return out
}

func (in *instr) replaceSeams() {
	inConst := constContext(in.file)
	astutil.Apply(in.file, func(c *astutil.Cursor) bool {
		if ce, ok := c.Node().(*ast.CallExpr); ok && len(ce.Args) >= 1 {
			var fid *ast.Ident
			switch f := ce.Fun.(type) {
			case *ast.Ident:
				fid = f
			case *ast.SelectorExpr:
				fid = f.Sel
			}
			if fid != nil {
				if fn, ok := in.info.Uses[fid].(*types.Func); ok && fn.Pkg() != nil && knobSizeArgs[fn.Pkg().Path()+"."+fn.Name()] {
					if inner, isCall := ce.Args[0].(*ast.CallExpr); !isCall || !isSimrtCall(inner) {
						in.site(ce.Pos(), "knob")
						ce.Args[0] = call(sel("simrt", "KnobDiv"), strLit(fn.Pkg().Path()+"."+fn.Name()), ce.Args[0])
					}
				}
			}
			return true
		}
		if id, ok := c.Node().(*ast.Ident); ok {
			if cn, ok := in.info.Uses[id].(*types.Const); ok && cn.Pkg() != nil && knobConsts[cn.Pkg().Path()+"."+cn.Name()] {
				if _, isSel := c.Parent().(*ast.SelectorExpr); !isSel && !inConst[id.Pos()] {
					// the constant keeps the type it has in this context (an untyped constant compared with an int64 is an int64)
					knob := ast.Expr(call(sel("simrt", "KnobInt"), strLit(cn.Pkg().Path()+"."+cn.Name()), ast.NewIdent(id.Name)))
					if bt, ok := in.info.TypeOf(id).(*types.Basic); ok {
						switch {
						case bt.Kind() == types.Int || bt.Info()&types.IsUntyped != 0:
						case bt.Info()&(types.IsInteger|types.IsFloat) != 0:
							knob = call(ast.NewIdent(bt.Name()), knob)
						default:
							return true // not a number here: leave the constant alone
						}
					} else {
						return true // a named type: leave the constant alone
					}
					in.site(id.Pos(), "knob")
					c.Replace(knob)
					return false
				}
			}
			return true
		}
		se, ok := c.Node().(*ast.SelectorExpr)
		if !ok {
			return true
		}
		x, ok := se.X.(*ast.Ident)
		if !ok {
			return true
		}
		pn, ok := in.info.Uses[x].(*types.PkgName)
		if !ok {
			return true
		}
		path := pn.Imported().Path()
		switch {
		case path == "sync" && se.Sel.Name == "Pool":
			// sync.Pool hands back any item or none: owned by the simulator (simrt.Pool)
			in.site(se.Pos(), "sync.Pool")
			c.Replace(sel("simrt", "Pool"))
		case path == "os/signal" && se.Sel.Name == "Notify":
			in.site(se.Pos(), "signal")
			c.Replace(sel("simrt", "SignalNotify"))
		case path == "os" && in.fsPkg && (se.Sel.Name == "Open" || se.Sel.Name == "Stat" || se.Sel.Name == "File" || se.Sel.Name == "SameFile"):
			in.site(se.Pos(), "fs."+se.Sel.Name)
			c.Replace(sel("simrt", se.Sel.Name))
		case path == "os" && se.Sel.Name == "Stdin" && in.pkg.PkgPath == "rare/cmd/helpers":
			in.site(se.Pos(), "stdin")
			c.Replace(call(sel("simrt", "Stdin")))
		}
		return true
	}, nil)
}

// exprLits instruments the bodies of function literals found in n, without descending into
// literals nested in literals (block() does that itself).
func (in *instr) exprLits(n ast.Node) {
	if n == nil {
		return
	}
	ast.Inspect(n, func(x ast.Node) bool {
		if fl, ok := x.(*ast.FuncLit); ok {
			in.block(fl.Body)
			return false
		}
		return true
	})
}

func (in *instr) block(b *ast.BlockStmt) {
	if b == nil {
		return
	}
	b.List = in.stmts(b.List)
}

func (in *instr) stmts(list []ast.Stmt) []ast.Stmt {
	var out []ast.Stmt
	for _, s := range list {
		out = append(out, in.stmt(s)...)
	}
	return out
}

// ---- classification of visible operations ----

func (in *instr) isChan(e ast.Expr) bool {
	t := in.info.TypeOf(e)
	if t == nil {
		return false
	}
	_, ok := t.Underlying().(*types.Chan)
	return ok
}

// methodOf returns "(recvType).Name" for a method call, e.g. "(*sync.Mutex).Lock".
func (in *instr) methodOf(c *ast.CallExpr) string {
	se, ok := c.Fun.(*ast.SelectorExpr)
	if !ok {
		return ""
	}
	if fn, ok := in.info.Uses[se.Sel].(*types.Func); ok {
		return fn.FullName()
	}
	return ""
}

var lockMethods = map[string]string{
	"(*sync.Mutex).Lock":      "TryLock",
	"(*sync.RWMutex).Lock":    "TryLock",
	"(*sync.RWMutex).RLock":   "TryRLock",
	"(*sync.Mutex).Unlock":    "",
	"(*sync.RWMutex).Unlock":  "",
	"(*sync.RWMutex).RUnlock": "",
}

// visibleCall says whether a call is a visible operation that needs a yield after it.
func (in *instr) visibleCall(c *ast.CallExpr) string {
	if id, ok := c.Fun.(*ast.Ident); ok && id.Name == "close" && len(c.Args) == 1 {
		if _, isB := in.info.Uses[id].(*types.Builtin); isB {
			return "close"
		}
	}
	// len(ch)/cap(ch): a race-free read of shared state without any other visible operation; a goroutine that
	// decides on it and then acts (check-then-act) must be preemptible between the two
	if id, ok := c.Fun.(*ast.Ident); ok && (id.Name == "len" || id.Name == "cap") && len(c.Args) == 1 && in.isChan(c.Args[0]) {
		if _, isB := in.info.Uses[id].(*types.Builtin); isB {
			return "chanlen"
		}
	}
	m := in.methodOf(c)
	switch m {
	case "(*sync.WaitGroup).Wait", "(*sync.WaitGroup).Done", "(*sync.WaitGroup).Go":
		return "wg"
	case "time.Sleep":
		return "sleep"
	}
	if strings.HasPrefix(m, "sync/atomic.") || strings.HasPrefix(m, "(*sync/atomic.") || strings.HasPrefix(m, "(sync/atomic.") {
		return "atomic"
	}
	return ""
}

// visibleIn reports the first visible operation inside expression/statement n, not descending into
// function literals.
func (in *instr) visibleIn(n ast.Node) (string, token.Pos) {
	kind, pos := "", token.NoPos
	if n == nil {
		return kind, pos
	}
	ast.Inspect(n, func(x ast.Node) bool {
		if kind != "" {
			return false
		}
		switch v := x.(type) {
		case *ast.FuncLit:
			return false
		case *ast.UnaryExpr:
			if v.Op == token.ARROW {
				kind, pos = "recv", v.Pos()
				return false
			}
		case *ast.SendStmt:
			kind, pos = "send", v.Pos()
			return false
		case *ast.CallExpr:
			if k := in.visibleCall(v); k != "" {
				kind, pos = k, v.Pos()
				return false
			}
		}
		return true
	})
	return kind, pos
}

// lockCall recognises X.Lock()/RLock()/Unlock()/RUnlock() and returns the rewritten call.
func (in *instr) lockCall(c *ast.CallExpr) ast.Expr {
	m := in.methodOf(c)
	try, ok := lockMethods[m]
	if !ok {
		return nil
	}
	se := c.Fun.(*ast.SelectorExpr)
	if try != "" {
		s := in.site(c.Pos(), "lock")
		return call(sel("simrt", "Lock"), strLit(s),
			&ast.SelectorExpr{X: se.X, Sel: ast.NewIdent(try)},
			&ast.SelectorExpr{X: se.X, Sel: ast.NewIdent(se.Sel.Name)})
	}
	s := in.site(c.Pos(), "unlock")
	return call(sel("simrt", "Unlock"), strLit(s), &ast.SelectorExpr{X: se.X, Sel: ast.NewIdent(se.Sel.Name)})
}

// ---- statements ----

func (in *instr) stmt(s ast.Stmt) []ast.Stmt {
	switch x := s.(type) {
	case nil:
		return nil
	case *ast.BlockStmt:
		in.block(x)
		return []ast.Stmt{x}
	case *ast.LabeledStmt:
		inner := in.stmt(x.Stmt)
		if len(inner) == 0 {
			x.Stmt = &ast.EmptyStmt{}
			return []ast.Stmt{x}
		}
		// the label stays on the statement that carries the control structure: for rewritten
		// selects and ranges that is the one marked by labelTarget (last switch/for), else the first.
		idx := 0
		if _, isSel := x.Stmt.(*ast.SelectStmt); isSel {
			for i, st := range inner {
				if _, ok := st.(*ast.SwitchStmt); ok {
					idx = i
				}
			}
		}
		if _, isRange := x.Stmt.(*ast.RangeStmt); isRange {
			for i, st := range inner {
				if _, ok := st.(*ast.RangeStmt); ok {
					idx = i
					break
				}
			}
		}
		x.Stmt = inner[idx]
		out := append([]ast.Stmt{}, inner[:idx]...)
		out = append(out, x)
		out = append(out, inner[idx+1:]...)
		return out
	case *ast.GoStmt:
		return []ast.Stmt{in.goStmt(x)}
	case *ast.DeferStmt:
		return []ast.Stmt{in.deferStmt(x)}
	case *ast.ExprStmt:
		in.exprLits(x.X)
		if c, ok := x.X.(*ast.CallExpr); ok {
			if r := in.lockCall(c); r != nil {
				x.X = r
				return []ast.Stmt{x}
			}
		}
		return in.afterYield(x)
	case *ast.SendStmt:
		in.exprLits(x.Value)
		return in.afterYield(x)
	case *ast.AssignStmt:
		for _, r := range x.Rhs {
			in.exprLits(r)
		}
		return in.afterYield(x)
	case *ast.DeclStmt:
		in.exprLits(x.Decl)
		return in.afterYield(x)
	case *ast.IncDecStmt:
		return []ast.Stmt{x}
	case *ast.ReturnStmt:
		for _, r := range x.Results {
			in.exprLits(r)
		}
		if k, pos := in.visibleIn(x); k != "" {
			// return f(<-c) and friends: the goroutine's next visible operation or its exit follows
			// anyway; a yield cannot be placed after a return. Only atomics are tolerated here.
			if k != "atomic" && k != "chanlen" {
				in.fail(pos, "visible operation ("+k+") inside a return statement")
			}
		}
		return []ast.Stmt{x}
	case *ast.IfStmt:
		return in.ifStmt(x)
	case *ast.ForStmt:
		if x.Init != nil {
			if k, pos := in.visibleIn(x.Init); k != "" {
				in.fail(pos, "visible operation in for-init")
			}
		}
		if k, pos := in.visibleIn(x.Cond); k != "" {
			if k == "atomic" || k == "chanlen" {
				// atomic load in a loop condition: yield at the top of the body and after the loop
				st := in.site(pos, "atomic")
				in.block(x.Body)
				x.Body.List = append([]ast.Stmt{yieldStmt(st)}, x.Body.List...)
				return []ast.Stmt{x, yieldStmt(st)}
			}
			in.fail(pos, "visible operation ("+k+") in for-condition")
		}
		if k, pos := in.visibleIn(x.Post); k != "" {
			in.fail(pos, "visible operation in for-post")
		}
		in.exprLits(x.Cond)
		in.block(x.Body)
		return []ast.Stmt{x}
	case *ast.RangeStmt:
		return in.rangeStmt(x)
	case *ast.SwitchStmt:
		pre := []ast.Stmt{}
		if x.Init != nil {
			if k, pos := in.visibleIn(x.Init); k != "" {
				in.fail(pos, "visible operation in switch-init")
			}
		}
		if k, pos := in.visibleIn(x.Tag); k != "" {
			if k != "atomic" && k != "chanlen" {
				in.fail(pos, "visible operation ("+k+") in switch tag")
			}
		}
		in.exprLits(x.Tag)
		for _, cc := range x.Body.List {
			c := cc.(*ast.CaseClause)
			for _, e := range c.List {
				if k, pos := in.visibleIn(e); k != "" && k != "atomic" && k != "chanlen" {
					in.fail(pos, "visible operation in case expression")
				}
				in.exprLits(e)
			}
			c.Body = in.stmts(c.Body)
		}
		return append(pre, x)
	case *ast.TypeSwitchStmt:
		for _, cc := range x.Body.List {
			c := cc.(*ast.CaseClause)
			c.Body = in.stmts(c.Body)
		}
		return []ast.Stmt{x}
	case *ast.SelectStmt:
		return in.selectStmt(x)
	case *ast.CaseClause, *ast.CommClause:
		in.fail(s.Pos(), "unexpected clause")
		return []ast.Stmt{s}
	default:
		return []ast.Stmt{s}
	}
}

func (in *instr) afterYield(s ast.Stmt) []ast.Stmt {
	if k, pos := in.visibleIn(s); k != "" {
		return []ast.Stmt{s, yieldStmt(in.site(pos, k))}
	}
	return []ast.Stmt{s}
}

func (in *instr) ifStmt(x *ast.IfStmt) []ast.Stmt {
	k, pos := in.visibleIn(x.Init)
	if k == "" {
		k, pos = in.visibleIn(x.Cond)
	}
	if x.Init != nil {
		in.exprLits(x.Init)
	}
	in.exprLits(x.Cond)
	in.block(x.Body)
	switch e := x.Else.(type) {
	case *ast.BlockStmt:
		in.block(e)
	case *ast.IfStmt:
		r := in.ifStmt(e)
		if len(r) == 1 {
			x.Else = r[0]
		} else {
			x.Else = &ast.BlockStmt{List: r}
		}
	}
	if k != "" {
		st := in.site(pos, k)
		x.Body.List = append([]ast.Stmt{yieldStmt(st)}, x.Body.List...)
		switch e := x.Else.(type) {
		case nil:
			x.Else = &ast.BlockStmt{List: []ast.Stmt{yieldStmt(st)}}
		case *ast.BlockStmt:
			e.List = append([]ast.Stmt{yieldStmt(st)}, e.List...)
		default:
			x.Else = &ast.BlockStmt{List: []ast.Stmt{yieldStmt(st), e}}
		}
	}
	return []ast.Stmt{x}
}

func (in *instr) goStmt(g *ast.GoStmt) ast.Stmt {
	c := g.Call
	st := in.site(g.Pos(), "go")
	for _, a := range c.Args {
		in.exprLits(a)
	}
	if fl, ok := c.Fun.(*ast.FuncLit); ok {
		in.block(fl.Body)
		if len(c.Args) == 0 && fl.Type.Params.NumFields() == 0 && (fl.Type.Results == nil || fl.Type.Results.NumFields() == 0) {
			return &ast.ExprStmt{X: call(sel("simrt", "Go"), strLit(st), fl)}
		}
	}
	sig, _ := in.info.TypeOf(c.Fun).Underlying().(*types.Signature)
	if sig == nil {
		in.fail(g.Pos(), "go statement: callee has no signature (conversion or builtin)")
		return g
	}
	if sig.Results().Len() > 0 || sig.Variadic() || sig.Params().Len() > 5 || c.Ellipsis.IsValid() {
		in.fail(g.Pos(), "go statement: callee with results, variadic or > 5 parameters is not supported")
		return g
	}
	if sig.Params().Len() == 0 {
		return &ast.ExprStmt{X: call(sel("simrt", "Go"), strLit(st), c.Fun)}
	}
	args := append([]ast.Expr{strLit(st), c.Fun}, c.Args...)
	return &ast.ExprStmt{X: call(sel("simrt", "Go"+strconv.Itoa(sig.Params().Len())), args...)}
}

func (in *instr) deferStmt(d *ast.DeferStmt) ast.Stmt {
	c := d.Call
	for _, a := range c.Args {
		in.exprLits(a)
	}
	if fl, ok := c.Fun.(*ast.FuncLit); ok {
		in.block(fl.Body)
		return d
	}
	if r := in.lockCall(c); r != nil {
		d.Call = r.(*ast.CallExpr)
		return d
	}
	switch k := in.visibleCall(c); k {
	case "":
		return d
	case "close":
		d.Call = call(sel("simrt", "DeferClose"), strLit(in.site(c.Pos(), "close")), c.Args[0])
		return d
	default:
		if len(c.Args) == 0 {
			if _, ok := c.Fun.(*ast.SelectorExpr); ok {
				// defer wg.Done() -> defer simrt.Deferred(site, wg.Done): the method value binds the
				// receiver at defer time, exactly as the original
				d.Call = call(sel("simrt", "Deferred"), strLit(in.site(c.Pos(), k)), c.Fun)
				return d
			}
		}
		// defer x.Store(v) / defer atomic.AddInt64(&n, -1): function value and arguments are evaluated at defer time
		// (as in the original), the call and the yield after it run when the function returns
		if sig, ok := in.info.TypeOf(c.Fun).(*types.Signature); ok && !sig.Variadic() && len(c.Args) <= 3 && sig.Results().Len() <= 1 {
			name := fmt.Sprintf("Deferred%d", len(c.Args))
			if sig.Results().Len() == 1 {
				name += "R"
			}
			args := append([]ast.Expr{strLit(in.site(c.Pos(), k)), c.Fun}, c.Args...)
			d.Call = call(sel("simrt", name), args...)
			return d
		}
		in.fail(c.Pos(), "deferred visible operation ("+k+") of this shape is not supported")
		return d
	}
}

func orderedKey(t types.Type) bool {
	b, ok := t.Underlying().(*types.Basic)
	if !ok {
		return false
	}
	return b.Info()&(types.IsInteger|types.IsFloat|types.IsString) != 0
}

func isBlank(e ast.Expr) bool {
	id, ok := e.(*ast.Ident)
	return e == nil || (ok && id.Name == "_")
}

func (in *instr) rangeStmt(x *ast.RangeStmt) []ast.Stmt {
	in.exprLits(x.X)
	t := in.info.TypeOf(x.X)
	if t == nil {
		in.block(x.Body)
		return []ast.Stmt{x}
	}
	switch u := t.Underlying().(type) {
	case *types.Chan:
		st := in.site(x.Pos(), "range-chan")
		in.block(x.Body)
		x.Body.List = append([]ast.Stmt{yieldStmt(st)}, x.Body.List...)
		return []ast.Stmt{x, yieldStmt(st)}
	case *types.Map:
		if !orderedKey(u.Key()) {
			p := in.fset.Position(x.Pos())
			in.unc = append(in.unc, fmt.Sprintf("%s:%d map[%s]", in.rel, p.Line, u.Key().String()))
			in.block(x.Body)
			return []ast.Stmt{x}
		}
		if _, isTP := u.Key().(*types.TypeParam); isTP {
			in.block(x.Body)
			return []ast.Stmt{x}
		}
		st := in.site(x.Pos(), "range-map")
		in.block(x.Body)
		var pre []ast.Stmt
		m := x.X
		if _, simple := m.(*ast.Ident); !simple {
			// evaluate the map expression once
			mv := in.tmp("m")
			pre = append(pre, &ast.AssignStmt{Lhs: []ast.Expr{mv}, Tok: token.DEFINE, Rhs: []ast.Expr{m}})
			m = mv
		}
		kv := in.tmp("k")
		var head []ast.Stmt
		needV := !isBlank(x.Value)
		if x.Tok == token.DEFINE {
			if needV {
				okv := in.tmp("ok")
				head = append(head,
					&ast.AssignStmt{Lhs: []ast.Expr{x.Value, okv}, Tok: token.DEFINE, Rhs: []ast.Expr{&ast.IndexExpr{X: m, Index: kv}}},
					&ast.IfStmt{Cond: &ast.UnaryExpr{Op: token.NOT, X: okv}, Body: &ast.BlockStmt{List: []ast.Stmt{&ast.BranchStmt{Tok: token.CONTINUE}}}})
			} else {
				okv := in.tmp("ok")
				head = append(head,
					&ast.AssignStmt{Lhs: []ast.Expr{ast.NewIdent("_"), okv}, Tok: token.DEFINE, Rhs: []ast.Expr{&ast.IndexExpr{X: m, Index: kv}}},
					&ast.IfStmt{Cond: &ast.UnaryExpr{Op: token.NOT, X: okv}, Body: &ast.BlockStmt{List: []ast.Stmt{&ast.BranchStmt{Tok: token.CONTINUE}}}})
			}
			if !isBlank(x.Key) {
				head = append(head, &ast.AssignStmt{Lhs: []ast.Expr{x.Key}, Tok: token.DEFINE, Rhs: []ast.Expr{kv}},
					&ast.AssignStmt{Lhs: []ast.Expr{ast.NewIdent("_")}, Tok: token.ASSIGN, Rhs: []ast.Expr{x.Key}})
			}
		} else if x.Tok == token.ASSIGN {
			okv := in.tmp("ok")
			tv := in.tmp("v")
			head = append(head,
				&ast.AssignStmt{Lhs: []ast.Expr{tv, okv}, Tok: token.DEFINE, Rhs: []ast.Expr{&ast.IndexExpr{X: m, Index: kv}}},
				&ast.IfStmt{Cond: &ast.UnaryExpr{Op: token.NOT, X: okv}, Body: &ast.BlockStmt{List: []ast.Stmt{&ast.BranchStmt{Tok: token.CONTINUE}}}})
			if !isBlank(x.Key) {
				head = append(head, &ast.AssignStmt{Lhs: []ast.Expr{x.Key}, Tok: token.ASSIGN, Rhs: []ast.Expr{kv}})
			}
			if needV {
				head = append(head, &ast.AssignStmt{Lhs: []ast.Expr{x.Value}, Tok: token.ASSIGN, Rhs: []ast.Expr{tv}})
			} else {
				head = append(head, &ast.AssignStmt{Lhs: []ast.Expr{ast.NewIdent("_")}, Tok: token.ASSIGN, Rhs: []ast.Expr{tv}})
			}
		} else {
			// `for range m`: only the count matters
			in.sites = in.sites[:len(in.sites)-1]
			return []ast.Stmt{x}
		}
		nr := &ast.RangeStmt{
			Key:   ast.NewIdent("_"),
			Value: kv,
			Tok:   token.DEFINE,
			X:     call(sel("simrt", "MapKeys"), strLit(st), m),
			Body:  &ast.BlockStmt{List: append(head, x.Body.List...)},
		}
		return append(pre, nr)
	default:
		in.block(x.Body)
		return []ast.Stmt{x}
	}
}

func (in *instr) selectStmt(x *ast.SelectStmt) []ast.Stmt {
	st := in.site(x.Pos(), "select")
	nComm := 0
	hasDefault := false
	for _, cc := range x.Body.List {
		c := cc.(*ast.CommClause)
		if c.Comm == nil {
			hasDefault = true
		} else {
			nComm++
		}
		c.Body = in.stmts(c.Body)
	}
	if nComm < 2 {
		for _, cc := range x.Body.List {
			c := cc.(*ast.CommClause)
			if c.Comm != nil {
				c.Body = append([]ast.Stmt{yieldStmt(st)}, c.Body...)
			}
		}
		return []ast.Stmt{x}
	}
	// tape-ordered select
	var pre []ast.Stmt
	var ks []ast.Expr
	sw := &ast.SwitchStmt{Body: &ast.BlockStmt{}}
	idx := 0
	for _, cc := range x.Body.List {
		c := cc.(*ast.CommClause)
		if c.Comm == nil {
			sw.Body.List = append(sw.Body.List, &ast.CaseClause{
				List: []ast.Expr{&ast.UnaryExpr{Op: token.SUB, X: &ast.BasicLit{Kind: token.INT, Value: "1"}}},
				Body: c.Body,
			})
			continue
		}
		k := in.tmp("k")
		var bind []ast.Stmt
		switch cm := c.Comm.(type) {
		case *ast.SendStmt:
			in.exprLits(cm.Value)
			pre = append(pre, &ast.AssignStmt{Lhs: []ast.Expr{k}, Tok: token.DEFINE, Rhs: []ast.Expr{call(sel("simrt", "Send"), cm.Chan, cm.Value)}})
		case *ast.ExprStmt:
			u, ok := ast.Unparen(cm.X).(*ast.UnaryExpr)
			if !ok || u.Op != token.ARROW {
				in.fail(cm.Pos(), "select clause is not a receive")
				return []ast.Stmt{x}
			}
			pre = append(pre, &ast.AssignStmt{Lhs: []ast.Expr{k}, Tok: token.DEFINE, Rhs: []ast.Expr{call(sel("simrt", "Recv"), u.X)}})
		case *ast.AssignStmt:
			if len(cm.Rhs) != 1 {
				in.fail(cm.Pos(), "select clause shape")
				return []ast.Stmt{x}
			}
			u, ok := ast.Unparen(cm.Rhs[0]).(*ast.UnaryExpr)
			if !ok || u.Op != token.ARROW {
				in.fail(cm.Pos(), "select clause is not a receive")
				return []ast.Stmt{x}
			}
			pre = append(pre, &ast.AssignStmt{Lhs: []ast.Expr{k}, Tok: token.DEFINE, Rhs: []ast.Expr{call(sel("simrt", "Recv"), u.X)}})
			var lhs, rhs []ast.Expr
			if !isBlank(cm.Lhs[0]) {
				lhs = append(lhs, cm.Lhs[0])
				rhs = append(rhs, &ast.SelectorExpr{X: k, Sel: ast.NewIdent("V")})
			}
			if len(cm.Lhs) > 1 && !isBlank(cm.Lhs[1]) {
				lhs = append(lhs, cm.Lhs[1])
				rhs = append(rhs, &ast.SelectorExpr{X: k, Sel: ast.NewIdent("Ok")})
			}
			if len(lhs) > 0 {
				bind = append(bind, &ast.AssignStmt{Lhs: lhs, Tok: cm.Tok, Rhs: rhs})
				if cm.Tok == token.DEFINE {
					// keep "declared and not used" semantics identical to the original clause
					for _, l := range lhs {
						bind = append(bind, &ast.AssignStmt{Lhs: []ast.Expr{ast.NewIdent("_")}, Tok: token.ASSIGN, Rhs: []ast.Expr{l}})
					}
				}
			}
		default:
			in.fail(c.Pos(), "select clause shape")
			return []ast.Stmt{x}
		}
		ks = append(ks, k)
		body := append(bind, yieldStmt(st))
		body = append(body, c.Body...)
		sw.Body.List = append(sw.Body.List, &ast.CaseClause{
			List: []ast.Expr{&ast.BasicLit{Kind: token.INT, Value: strconv.Itoa(idx)}},
			Body: body,
		})
		idx++
	}
	// a select whose clauses all return is a terminating statement; so is a switch, if it has a default clause
	sw.Body.List = append(sw.Body.List, &ast.CaseClause{
		Body: []ast.Stmt{&ast.ExprStmt{X: call(ast.NewIdent("panic"), strLit("simrt: select chose no clause"))}},
	})
	args := append([]ast.Expr{strLit(st), boolLit(hasDefault)}, ks...)
	sw.Tag = call(sel("simrt", "Select"), args...)
	return append(pre, sw)
}
