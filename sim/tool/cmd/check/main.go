// Command check is the driver of the deterministic-simulation checks (DESIGN.md section 3.1, 9):
// scratch copy of /repo -> instrument -> build one test binary -> fan seeds out over worker
// processes -> collect -> minimise -> replay in a fresh process -> evidence + exit code.
//
//	check run <PROP> [--tier quick|thorough] [--runs N] [--keep]
//	check replay <file>
//
// exit 0: property held on everything explored (KNOWN-FINDING lines possible)
// exit 1: "VIOLATION property=<id> replay=<path>" — a violation that replayed in a fresh process
// exit 2: harness trouble (build, instrumentation, watchdog, nondeterminism, non-replaying mismatch)
package main

import (
	"bufio"
	"bytes"
	"crypto/sha256"
	"encoding/json"
	"fmt"
	"io"
	"io/fs"
	"os"
	"os/exec"
	"path/filepath"
	"regexp"
	"runtime"
	"sort"
	"strconv"
	"strings"
	"sync"
	"time"

	"verif/tool/siminstr"
)

const goBinDir = "/opt/veriftools/go1.26.8/bin"

// repoDir is the tree under test: /repo, unless VERIF_REPO points at a snapshot of it (background
// sweeps started with `vp run --with-repo`, so that edits to /repo meanwhile do not leak into them).
var repoDir = "/repo"

// verifDir is the root of the verification tree this binary belongs to: <verifDir>/bin/check. A
// snapshot of /verif (vp run) therefore uses its own sim/, writes its own evidence/ and replays/.
var verifDir = "/verif"

func init() {
	if v := os.Getenv("VERIF_REPO"); v != "" {
		repoDir = v
	}
	if v := os.Getenv("VERIF_DIR"); v != "" {
		verifDir = v
		return
	}
	if exe, err := os.Executable(); err == nil {
		if d := filepath.Dir(exe); filepath.Base(d) == "bin" {
			if _, err := os.Stat(filepath.Join(filepath.Dir(d), "sim", "simrt")); err == nil {
				verifDir = filepath.Dir(d)
			}
		}
	}
}

type tierCfg struct {
	Runs      int // simulated runs (scheduler mode)
	Chunk     int // runs per worker process
	RaceRuns  int // leg B (free-run under -race); 0 = none
	DetRuns   int // indices re-run for the determinism self-check
	ShrinkSec int
}

type propCfg struct {
	Title    string
	Quick    tierCfg
	Thorough tierCfg
	Rule     string
	Assume   []string
	Stubs    []string
	Real     []string
}

var commonAssume = []string{
	"Go 1.26.8 runtime and testing/synctest (fake clock, quiescence detection) are correct",
	"the source-to-source instrumenter preserves the semantics of the rewritten statements (guarded by the determinism and sensitivity runs)",
	"preemption happens only at visible operations (channel, lock, atomic, WaitGroup, timer, fs call); interleavings of plain memory accesses are covered only by the -race leg",
	"the check samples schedules and faults from a seeded tape; a clean batch is evidence, not proof",
}

var props = map[string]*propCfg{
	"C10": {
		Title:    "optimisation and user-defined functions never change an expression's value (also concurrently; time live/delta not frozen)",
		Quick:    tierCfg{Runs: 5000, Chunk: 160, RaceRuns: 320, DetRuns: 48, ShrinkSec: 60},
		Thorough: tierCfg{Runs: 400000, Chunk: 2000, RaceRuns: 24000, DetRuns: 256, ShrinkSec: 240},
		Rule: "one evaluation = one simulated pipeline run (1-4 workers sharing one compiled, optimised expression and its context pools) whose extract template is drawn from a tree generator over the registered function table (all helpers except load/lookup/haskey/color; arities 1-4; constant, dynamic {0}..{3}/{name}/{src}/{line}/{@} and nested arguments to depth 3), or calls a function loaded through the real funcs-file loader (1-3 generated definitions over scalar helpers, later ones calling earlier ones, comments, blank lines, backslash continuations), or is {time live|delta|now} with whole fake seconds passing between reads; templates that do not compile in both forms or panic on a line are redrawn (C08's subject); every emitted key is compared with a sequential un-optimised evaluation (funcs files: of the inlined tree built with builtins only); leg B re-runs the same worlds free-running under the race detector; one run in five is a command-line scenario (funcs file through --funcs under drawn global output flags vs the inlined template in `rare filter`; `rare expression` with and without --no-optimize, funcs file and inlined); " +
			"distinct_nontrivial = distinct schedule hashes among runs with >= 1 matching line and >= 2 goroutines runnable at >= 1 decision",
		Real:  []string{"pkg/expressions (compiler, optimiser, stage analysis)", "pkg/expressions/stdlib (all helpers)", "pkg/expressions/funcfile", "pkg/expressions/funclib", "pkg/slicepool", "pkg/extractor + batchers", "main.go start-up sequence (app.Before), cmd/filter.go, cmd/expressions.go (command-line leg)"},
		Stubs: []string{"goroutine scheduling (tape; leg B: the real Go scheduler under -race)", "clock (synctest fake clock)", "stdin (scripted reader)", "read chunking/latency (fs seam)"},
		Assume: []string{"interleavings inside one helper evaluation are not schedulable (no visible operation there): a pooled object handed to two workers at once shows up in leg B as a data race, not in leg A"},
	},
	"C13": {
		Title:    "output ordering is a deterministic function of the aggregated data (order-independence clauses)",
		Quick:    tierCfg{Runs: 1000, Chunk: 32, RaceRuns: 48, DetRuns: 24, ShrinkSec: 90},
		Thorough: tierCfg{Runs: 50000, Chunk: 400, RaceRuns: 3000, DetRuns: 128, ShrinkSec: 300},
		Rule: "one evaluation = one scenario: a multiset of 2-8 (key, count) drawn from pools that stress the comparators (numbers in several spellings, weekday/month names and abbreviations, dates in several layouts, text, mixtures), one of histo/table/bars and one sort mode of {text, numeric, contextual, date, value} x {none, :asc, :desc, :reverse}, run in-process under 4-6 variants that change only the map-iteration salt, the arrival order of lines, schedule and worker count, division among files and read latencies (number of intermediate renders on the fake clock), plus one run with the reversed and one with the equivalent spelling; the row/column label sequences of the final snapshots must agree (or mirror); one scenario in three draws clean key families (distinct integers/decimals, weekday/month names, dates of one layout, distinct totals) with independent modes for rows and columns and compares the displayed order with the documented one; `rare reduce` kinds (2-8 groups, or 1030-1300 groups) order groups by key or by a --sort expression with ties, --sort-reverse must mirror; for key-based sort modes the screen of every periodic render is rebuilt from the lines the program writes to its terminal (hook in multiterm WriteForLine) and every pair of labels on it must stand in the same relative order as in the final output of that run; leg B runs key sets above a thousand free-running under the race detector; " +
			"distinct_nontrivial = distinct combined schedule hashes among scenarios with >= 2 goroutines runnable at >= 1 decision",
		Real:  []string{"main.cliMain + urfave/cli", "cmd/histo|tabulate|bargraph", "cmd/helpers/sorting.go", "pkg/aggregation/sorting", "pkg/aggregation", "pkg/multiterm renderers", "pkg/extractor + batchers"},
		Stubs: []string{"goroutine scheduling (tape)", "clock (synctest fake clock)", "Go map iteration order in rare's packages (tape-salted permutation)", "stdin (scripted reader)", "read chunking/latency (fs seam)"},
		Assume: []string{"for arbitrary key mixtures only order-independence is decided (same data => same order; :reverse mirrors; equivalent spellings agree); what a mode means (magnitude, calendar position, chronological, larger-first) is decided for the clean key families only"},
	},
	"C03": {
		Title:    "final aggregates equal the reference aggregation, independent of parallelism",
		Quick:    tierCfg{Runs: 1200, Chunk: 40, RaceRuns: 96, DetRuns: 24, ShrinkSec: 90},
		Thorough: tierCfg{Runs: 60000, Chunk: 400, RaceRuns: 6000, DetRuns: 128, ShrinkSec: 300},
		Rule: "one evaluation = one scenario (a corpus of 0-60 lines `w1 w2 n` with tricky words, noise and optionally non-numeric increments; one of histo/table/heatmap/spark/bars/reduce/analyze or a {.}-keyed histogram, with drawn key templates, sort flags and an optional ignore expression) executed in-process under 3-5 variants that must not matter: --workers/--batch/--batch-buffer/--readers, permuted file arguments, the same lines divided among 1-4 files (contiguous or scattered), plain/gzip with -z, stdin, schedule, read chunking/latency (number of intermediate renders on the fake clock), map-iteration salt; exit status, CSV bytes and snapshot stdout must agree across variants, and the CSV parsed by a strict RFC 4180 parser must equal an independent fold (stdlib regexp + the world's own template evaluator); histograms also run with the default matcher (no -m); gzip inputs may have two members; leg B re-runs scenarios free-running under the race detector with the same oracles; " +
			"distinct_nontrivial = distinct combined schedule hashes among scenarios with >= 1 matching line and >= 2 goroutines runnable at >= 1 decision",
		Real:  []string{"main.cliMain + urfave/cli", "cmd/histo|tabulate|heatmap|spark|bargraph|reduce|analyze", "cmd/helpers", "pkg/aggregation", "pkg/csv", "pkg/multiterm renderers", "pkg/extractor + batchers", "pkg/expressions", "compress/gzip"},
		Stubs: []string{"goroutine scheduling (tape)", "clock (synctest fake clock)", "Go map iteration order in rare's packages (tape-salted permutation)", "stdin (scripted reader)", "read chunking/latency (fs seam)", "os.Exit (trapped)", "os.Stdout/os.Stderr (scratch files)"},
		Assume: []string{"no read errors are injected in this world (a byte-offset fault does not commute with re-dividing lines among files); C06 covers them", "kept out on purpose: --sort numeric|contextual|date (C13's world), spark without --notruncate, order-sensitive reduce accumulators"},
	},
	"C06": {
		Title:    "named inputs are each read once, decoded faithfully, and failures are reported",
		Quick:    tierCfg{Runs: 6000, Chunk: 200, DetRuns: 48, ShrinkSec: 60},
		Thorough: tierCfg{Runs: 160000, Chunk: 1000, DetRuns: 256, ShrinkSec: 240},
		Rule: "one evaluation = one in-process `rare filter -e {src}:{line}:{0} [-z] [-R] --readers r --batch b --workers w --batch-buffer k args...` under the simulated scheduler over a generated scratch tree (2-10 files in nested directories: plain, empty, gzip, corrupt-header gzip, truncated gzip, bit-flipped gzip, names with glob metacharacters) with 1-5 arguments over {existing path, missing path, directory, glob with 0/1/many matches, pattern with metacharacters in a directory component, bad pattern, repeated mention} or stdin (none / -); odd-indexed runs inject one open failure or one read error at a drawn byte of one input; gzip files have 1-3 members; stdin (1 run in 6) is up to 40 lines from a producer that may pause up to 700ms per read, with slow stages in half of those runs; " +
			"distinct_nontrivial = distinct schedule hashes among runs with >= 1 input and >= 2 goroutines runnable at >= 1 decision",
		Real:  []string{"main.cliMain + urfave/cli", "cmd/filter.go", "cmd/helpers", "pkg/extractor/dirwalk", "pkg/extractor/batchers", "pkg/extractor", "compress/gzip", "filepath.Glob/Walk", "regular files and directories of the kernel"},
		Stubs: []string{"goroutine scheduling (tape)", "clock (synctest fake clock)", "stdin (scripted reader)", "open failure / read error / chunking / latency (fs seam)", "os.Exit via logger.OsExit (trapped)", "os.Stdout/os.Stderr (scratch files)"},
		Assume: []string{"stdlib compress/gzip on a private copy of the file is the oracle for what -z delivers; filepath.Match is the oracle for one path component of a glob"},
	},
	"C15": {
		Title:    "follow mode delivers every appended byte exactly once, in order",
		Quick:    tierCfg{Runs: 6000, Chunk: 200, DetRuns: 48, ShrinkSec: 60},
		Thorough: tierCfg{Runs: 500000, Chunk: 2500, DetRuns: 256, ShrinkSec: 240},
		Rule: "one evaluation = one simulated run of followreader.New(path, reopen, poll) (real notify.go/poller.go on real scratch files through the fs seam, fsnotify stubbed, poll delay on the fake clock) read by a simulated reader with drawn buffer sizes and latencies, against a simulated writer executing a drawn history of 1-12 operations over {append 1-40 unique bytes (sometimes split in two writes), pause 1ms-3s, remove-after-drain, re-create(+append)} x {notify, poll} x {reopen} x {tail}; odd-indexed runs add short reads and read latencies on the followed file; whether a re-created file takes over the inode number of the removed one is drawn from the tape (virtual identity behind os.SameFile); the writer may arm an append that lands right after the reader's next stat/read/open call; pauses include multiples of the 250ms poll period; one run in four drives batchers.TailFilesToChan over 1-3 followed files with a draining consumer (line numbering, prefix of complete lines, time flush, channel close), and a third of those go through the command line instead: `rare filter -l -f|-F|--follow|--reopen [--poll] [--tail|-t] --batch b --workers w files...` in-process, every printed `<source> <line>: <text>` checked against the appended streams, exit status and summary when plain follow ends, no return while a file is still followed; " +
			"distinct_nontrivial = distinct schedule hashes among runs with >= 1 appended byte and >= 2 goroutines runnable at >= 1 decision",
		Real:  []string{"pkg/followreader (notify.go, poller.go)", "pkg/extractor/batchers (TailFilesToChan, time flush)", "pkg/readahead", "main.cliMain + cmd/filter.go + cmd/helpers/extractorBuilder.go (command-line follow leg)", "regular files of the kernel (append, unlink-while-open, re-create)"},
		Stubs: []string{"github.com/fsnotify/fsnotify + inotify (stub: FIFO kernel queue, adjacent-identical coalescing, ignore-if-file-gone, unbuffered Events)", "goroutine scheduling (tape)", "clock (synctest fake clock)", "short reads / read latency (fs seam)", "file identity (os.SameFile): virtual inode numbers, reuse decided by the tape"},
		Assume: []string{"the fsnotify stub is faithful to fsnotify v1.4.9 on inotify for create/write/remove on one watched directory: FIFO, no loss below queue overflow, coalescing of an event identical to the newest unread one, non-remove events dropped when the file is gone at processing time"},
	},
	"C05": {
		Title:    "race-free, atomic render, terminates, final render complete",
		Quick:    tierCfg{Runs: 4000, Chunk: 125, RaceRuns: 480, DetRuns: 48, ShrinkSec: 60},
		Thorough: tierCfg{Runs: 300000, Chunk: 1500, RaceRuns: 24000, DetRuns: 256, ShrinkSec: 240},
		Rule: "one evaluation = one simulated run of real batchers + extractor + helpers.RunAggregationLoop around a real MatchCounter with the render callback of cmd/histo.go (real HistoWriter, FWriteExtractorSummary, Batcher.StatusString), under a tape-drawn schedule, select ties, reader/sample/render/yield latencies in fake time (the 100ms ticker lands before, between and after batches); leg B re-runs the same worlds free-running under the race detector; one run in four is `rare histo|bars` in-process over lines arriving across several render ticks, final screen numbers and footer against the reference; " +
			"distinct_nontrivial = distinct schedule hashes among leg-A runs that read >= 1 line and had >= 2 goroutines runnable at >= 1 decision",
		Real:  []string{"cmd/helpers.RunAggregationLoop", "pkg/extractor/batchers", "pkg/extractor", "pkg/aggregation.MatchCounter", "pkg/multiterm/termrenderers.HistoWriter", "pkg/multiterm.VirtualTerm", "pkg/logger", "regular files of the kernel"},
		Stubs: []string{"goroutine scheduling (tape; leg B: the real Go scheduler under -race)", "clock (synctest fake clock)", "stdin (scripted reader)", "signal.Notify (simrt.SignalNotify)", "read chunking/latency/error (fs seam)"},
		Assume: []string{"leg B (data races): the interleaving is the real one and is not controlled by the tape; a report is sound (a real race in the real code) but a clean leg B is only as strong as the race detector's happens-before analysis over the executed accesses"},
	},
	"C04": {
		Title:    "line splitting is exact and returned buffers are never overwritten",
		Quick:    tierCfg{Runs: 25000, Chunk: 800, RaceRuns: 320, DetRuns: 48, ShrinkSec: 30},
		Thorough: tierCfg{Runs: 1250000, Chunk: 20000, RaceRuns: 16000, DetRuns: 256, ShrinkSec: 120},
		Rule: "one evaluation = one scanner case: a byte string (length 0-200 over alphabets dense in \\n and \\r) scanned by readahead.NewImmediate (buffer 1-64 or 128KiB) or NewBuffered (2-64) through a scripted reader whose Read results (chunk size, (0,nil) stalls, data-with-EOF, and in odd-indexed runs one injected non-EOF error with or without data) are drawn from the tape; one case in 24 is a long stream (100-400 short lines) under a reader that stalls with probability 30-80 % in runs of up to 150 and may hand out whole lines only; 16 cases per run index; one run index in eight (and every race-leg run) is a pipeline run instead: real batchers with >= 2 readers, default matcher, all matches retained and re-read after the run; " +
			"distinct_nontrivial = distinct hashes of (scanner kind, buffer size, content, read script) among cases where at least one chunk boundary fell inside a line",
		Real:  []string{"pkg/readahead", "pkg/extractor/batchers + pkg/extractor (pipeline leg)"},
		Stubs: []string{"the io.Reader under the scanner (scripted: chunking, stalls, EOF forms, injected error)"},
	},
	"C01": {
		Title:    "every line read once, classified once",
		Quick:    tierCfg{Runs: 8000, Chunk: 250, RaceRuns: 480, DetRuns: 48, ShrinkSec: 60},
		Thorough: tierCfg{Runs: 600000, Chunk: 2000, RaceRuns: 24000, DetRuns: 256, ShrinkSec: 240},
		Rule: "one evaluation = one simulated run of the real batchers+extractor pipeline (1-4 files or stdin, 0-40 lines each, drawn matcher/extract/ignore, batch/workers/readers/buffer) under a tape-drawn schedule, read chunking/stalls/latencies, -z with mixed plain/gzip files, -I, shrunk scanner-buffer and index-pool constants, and in odd-indexed runs one injected read error or open failures; one run in five goes through `rare filter` in-process (summary, exit status, printed keys); leg B re-runs the API-level worlds free-running under the race detector with the same oracle; " +
			"distinct_nontrivial = distinct schedule hashes (hash of the sequence of (goroutine, site) decisions) among runs that read >= 1 line and had >= 2 goroutines runnable at >= 1 decision",
		Real:  []string{"pkg/extractor/batchers", "pkg/extractor", "pkg/readahead", "pkg/expressions", "pkg/matchers", "regular files of the kernel"},
		Stubs: []string{"goroutine scheduling (tape; leg B: the real Go scheduler under -race)", "clock (synctest fake clock)", "stdin (scripted reader)", "read chunking/latency/error (fs seam)"},
	},
	"C02": {
		Title:    "each match carries its true source, line number, text and groups",
		Quick:    tierCfg{Runs: 8000, Chunk: 250, RaceRuns: 480, DetRuns: 48, ShrinkSec: 60},
		Thorough: tierCfg{Runs: 600000, Chunk: 2000, RaceRuns: 24000, DetRuns: 256, ShrinkSec: 240},
		Rule: "one evaluation = one simulated pipeline run whose consumer retains every Match until the run is over and only then reads Line/Indices/Source/LineNumber/Extracted; compared with stdlib regexp / a reference dissect / a sequential expression evaluation on private copies (incl. -z, -I, lines with case-changing and invalid UTF-8 bytes); one run in five checks `rare --color filter` output with SGR codes stripped and `-l` prefixes; leg B re-runs the API-level worlds free-running under the race detector; " +
			"distinct_nontrivial = distinct schedule hashes among runs that emitted >= 1 match and had >= 2 goroutines runnable at >= 1 decision",
		Real:  []string{"pkg/extractor/batchers", "pkg/extractor", "pkg/readahead", "pkg/expressions", "pkg/matchers", "pkg/slicepool", "compress/gzip", "main.cliMain + cmd/filter.go (CLI variant)"},
		Stubs: []string{"goroutine scheduling (tape; leg B: the real Go scheduler under -race)", "clock (synctest fake clock)", "stdin (scripted reader)", "read chunking/latency/error (fs seam)"},
	},
}

func die(code int, format string, args ...any) {
	fmt.Fprintf(os.Stderr, "check: "+format+"\n", args...)
	os.Exit(code)
}

func goEnv() []string {
	env := os.Environ()
	env = append(env, "GOFLAGS=-mod=mod", "GOPROXY=off", "GOSUMDB=off", "GOTOOLCHAIN=local", "PATH="+goBinDir+":"+os.Getenv("PATH"))
	return env
}

func copyTree(src, dst string) error {
	return filepath.WalkDir(src, func(p string, d fs.DirEntry, err error) error {
		if err != nil {
			return err
		}
		rel, _ := filepath.Rel(src, p)
		if rel == ".git" || strings.HasPrefix(rel, ".git"+string(filepath.Separator)) {
			if d.IsDir() {
				return filepath.SkipDir
			}
			return nil
		}
		target := filepath.Join(dst, rel)
		if d.IsDir() {
			return os.MkdirAll(target, 0o755)
		}
		if !d.Type().IsRegular() {
			return nil
		}
		in, err := os.Open(p)
		if err != nil {
			return err
		}
		defer in.Close()
		out, err := os.Create(target)
		if err != nil {
			return err
		}
		defer out.Close()
		_, err = io.Copy(out, in)
		return err
	})
}

type build struct {
	Scratch  string
	Tree     string
	Bin      string
	RaceBin  string
	SiteHash string
	Sites    int
	Unctl    []string
	BuildSec float64
}

// prepare makes the scratch copy, instruments it, and builds the test binary (and the -race one if asked).
func prepare(race bool) *build {
	t0 := time.Now()
	base := os.Getenv("VERIF_SCRATCH")
	if base == "" {
		base = os.TempDir()
	}
	scratch, err := os.MkdirTemp(base, "verif-sim-")
	if err != nil {
		die(2, "scratch: %v", err)
	}
	b := &build{Scratch: scratch, Tree: filepath.Join(scratch, "rare")}
	if err := copyTree(repoDir, b.Tree); err != nil {
		die(2, "copy /repo: %v", err)
	}
	// the repository's own tests are not part of the simulated binary
	filepath.WalkDir(b.Tree, func(p string, d fs.DirEntry, err error) error {
		if err == nil && !d.IsDir() && strings.HasSuffix(p, "_test.go") {
			os.Remove(p)
		}
		return nil
	})
	// go.mod of the scratch copy: simrt + fsnotify stub
	modPath := filepath.Join(b.Tree, "go.mod")
	mod, err := os.ReadFile(modPath)
	if err != nil {
		die(2, "go.mod: %v", err)
	}
	mods := regexp.MustCompile(`(?m)^go [0-9.]+$`).ReplaceAllString(string(mod), "go 1.25")
	mods += "\nrequire simrt v0.0.0\nreplace simrt => " + verifDir + "/sim/simrt\n"
	if _, err := os.Stat(verifDir + "/sim/fsnotify/go.mod"); err == nil {
		mods += "replace github.com/fsnotify/fsnotify => " + verifDir + "/sim/fsnotify\n"
	}
	if err := os.WriteFile(modPath, []byte(mods), 0o644); err != nil {
		die(2, "go.mod: %v", err)
	}
	res, err := siminstr.Instrument(b.Tree, goBinDir)
	if err != nil {
		os.RemoveAll(scratch)
		die(2, "harness cannot instrument the tree: %v", err)
	}
	sj, _ := json.Marshal(res.Sites)
	b.SiteHash = fmt.Sprintf("%x", sha256.Sum256(sj))[:16]
	b.Sites = len(res.Sites)
	b.Unctl = res.Uncontrolled
	// worlds
	ws, _ := filepath.Glob(verifDir + "/sim/worlds/*.go")
	for _, w := range ws {
		data, err := os.ReadFile(w)
		if err != nil {
			die(2, "worlds: %v", err)
		}
		if err := os.WriteFile(filepath.Join(b.Tree, filepath.Base(w)), data, 0o644); err != nil {
			die(2, "worlds: %v", err)
		}
	}
	b.Bin = filepath.Join(scratch, "sim.test")
	gobuild := func(out string, extra ...string) {
		args := append([]string{"test", "-c", "-vet=off", "-o", out}, extra...)
		args = append(args, ".")
		cmd := exec.Command(goBinDir+"/go", args...)
		cmd.Dir = b.Tree
		cmd.Env = goEnv()
		outb, err := cmd.CombinedOutput()
		if err != nil {
			os.RemoveAll(scratch)
			die(2, "build of the instrumented tree failed: %v\n%s", err, outb)
		}
	}
	if race {
		b.RaceBin = filepath.Join(scratch, "sim.race.test")
		var wg sync.WaitGroup
		wg.Add(2)
		go func() { defer wg.Done(); gobuild(b.Bin) }()
		go func() { defer wg.Done(); gobuild(b.RaceBin, "-race") }()
		wg.Wait()
	} else {
		gobuild(b.Bin)
	}
	b.BuildSec = time.Since(t0).Seconds()
	return b
}

type violation struct {
	Class string `json:"class"`
	Msg   string `json:"msg"`
}

type runResult struct {
	Prop       string           `json:"prop"`
	Index      uint64           `json:"index"`
	Seed       uint64           `json:"seed"`
	Faults     bool             `json:"faults"`
	Mode       int              `json:"mode"`
	Viol       []violation      `json:"viol"`
	Steps      int              `json:"steps"`
	Multi      int              `json:"multi"`
	Bubbles    int              `json:"bubbles"`
	SimNanos   int64            `json:"sim_ns"`
	Hash       string           `json:"hash"`
	Probes     map[string]int64 `json:"probes"`
	Fired      map[string]int64 `json:"fired"`
	EndReasons map[string]int   `json:"end"`
	Sample     json.RawMessage  `json:"sample"`
	Nontrivial bool             `json:"nontrivial"`
	WallMicros int64            `json:"wall_us"`
	DetHash    string           `json:"det"`
	RaceFlag   bool             `json:"race_flag"`
	RaceLogOff int64            `json:"race_log_off"`
	Cases      int              `json:"cases"`
	CaseHashes []string         `json:"case_hashes"`
}

type job struct {
	From, To uint64
	Mode     int
	Det      bool
	MaxProcs int
	Bin      string
	Out      string
}

func runJob(b *build, prop string, base uint64, tier string, j job, timeout time.Duration) error {
	cmd := exec.Command(j.Bin, "-test.run", "^TestSim$", "-test.timeout", "0", "-test.count", "1")
	cmd.Dir = b.Scratch
	env := append(os.Environ(),
		"SIM_PROP="+prop, "SIM_BASE="+strconv.FormatUint(base, 10), "SIM_FROM="+strconv.FormatUint(j.From, 10), "SIM_TO="+strconv.FormatUint(j.To, 10),
		"SIM_OUT="+j.Out, "SIM_MODE="+strconv.Itoa(j.Mode), "SIM_TIER="+tier, "SIM_SCRATCH="+b.Scratch, "SIM_SITEHASH="+b.SiteHash)
	if j.Det {
		env = append(env, "SIM_DET=1")
	}
	if j.MaxProcs > 0 {
		env = append(env, "GOMAXPROCS="+strconv.Itoa(j.MaxProcs))
	}
	if j.Mode == 2 {
		env = append(env, "GORACE=halt_on_error=0 log_path="+j.Out+".race")
	}
	cmd.Env = env
	var outb bytes.Buffer
	cmd.Stdout, cmd.Stderr = &outb, &outb
	if err := cmd.Start(); err != nil {
		return err
	}
	done := make(chan error, 1)
	go func() { done <- cmd.Wait() }()
	select {
	case err := <-done:
		if err != nil {
			if j.Mode == 2 && strings.Contains(outb.String(), "race detected during execution of test") {
				// the race detector makes the test binary exit 1; the reports are in the log_path files
				return nil
			}
			return fmt.Errorf("worker for indices [%d,%d) failed: %v\n%s", j.From, j.To, err, tail(outb.String(), 6000))
		}
		return nil
	case <-time.After(timeout):
		cmd.Process.Kill()
		return fmt.Errorf("worker for indices [%d,%d) exceeded the real-time watchdog of %v\n%s", j.From, j.To, timeout, tail(outb.String(), 3000))
	}
}

func tail(s string, n int) string {
	if len(s) > n {
		return "…" + s[len(s)-n:]
	}
	return s
}

func readResults(path string) ([]runResult, error) {
	f, err := os.Open(path)
	if err != nil {
		return nil, err
	}
	defer f.Close()
	var out []runResult
	sc := bufio.NewScanner(f)
	sc.Buffer(make([]byte, 1<<20), 64<<20)
	for sc.Scan() {
		var r runResult
		if err := json.Unmarshal(sc.Bytes(), &r); err != nil {
			return nil, err
		}
		out = append(out, r)
	}
	return out, sc.Err()
}

type knownFinding struct {
	Status   string `json:"status"` // "known" | "fixed"
	Property string `json:"property"`
	Class    string `json:"class"`   // violation class
	Match    string `json:"match"`   // regexp on the violation message identifying the specific input / call site / history
	What     string `json:"what"`    // human description
	Commit   string `json:"commit"`  // for fixed entries
}

func loadKnown() []knownFinding {
	b, err := os.ReadFile(verifDir + "/known_findings.json")
	if err != nil {
		return nil
	}
	var f struct {
		Findings []knownFinding `json:"findings"`
	}
	if err := json.Unmarshal(b, &f); err != nil {
		die(2, "known_findings.json: %v", err)
	}
	return f.Findings
}

func matchKnown(known []knownFinding, prop string, v violation) *knownFinding {
	for i := range known {
		k := &known[i]
		if k.Status != "known" || k.Property != prop || k.Class != v.Class {
			continue
		}
		if k.Match == "" {
			continue
		}
		if ok, _ := regexp.MatchString(k.Match, v.Msg); ok {
			return k
		}
	}
	return nil
}

func main() {
	os.Setenv("PATH", goBinDir+":"+os.Getenv("PATH"))
	os.Setenv("GOTOOLCHAIN", "local")
	os.Setenv("GOFLAGS", "-mod=mod")
	os.Setenv("GOPROXY", "off")
	os.Setenv("GOSUMDB", "off")
	if len(os.Args) < 3 {
		die(2, "usage: check run <PROP> [--tier quick|thorough] [--runs N] [--keep] | check replay <file>")
	}
	switch os.Args[1] {
	case "run":
		os.Exit(cmdRun(os.Args[2], os.Args[3:]))
	case "replay":
		os.Exit(cmdReplay(os.Args[2]))
	default:
		die(2, "unknown command %q", os.Args[1])
	}
}

func cmdReplay(path string) int {
	if abs, err := filepath.Abs(path); err == nil {
		path = abs
	}
	b, err := os.ReadFile(path)
	if err != nil {
		die(2, "%v", err)
	}
	var rf struct {
		Property string `json:"property"`
		Class    string `json:"class"`
		Mode     int    `json:"mode"`
	}
	if err := json.Unmarshal(b, &rf); err != nil {
		die(2, "%v", err)
	}
	bd := prepare(rf.Mode == 2)
	defer os.RemoveAll(bd.Scratch)
	ok, out := replayOnce(bd, rf.Property, path, rf.Class, rf.Mode)
	fmt.Print(out)
	if ok {
		fmt.Printf("VIOLATION property=%s replay=%s\n", rf.Property, path)
		return 1
	}
	fmt.Printf("replay of %s did not reproduce class %s on the current tree\n", path, rf.Class)
	return 0
}

func replayOnce(b *build, prop, path, class string, mode int) (bool, string) {
	bin := b.Bin
	tries := 1
	if mode == 2 {
		bin = b.RaceBin
		tries = 200
	}
	var last string
	for i := 0; i < tries; i++ {
		cmd := exec.Command(bin, "-test.run", "^TestSim$", "-test.timeout", "0", "-test.count", "1", "-test.v")
		cmd.Dir = b.Scratch
		cmd.Env = append(os.Environ(), "SIM_PROP="+prop, "SIM_REPLAY="+path, "SIM_SCRATCH="+b.Scratch, "SIM_MODE="+strconv.Itoa(mode))
		out, _ := cmd.CombinedOutput()
		last = string(out)
		if strings.Contains(last, "REPLAY-VIOLATION class="+class+"\n") {
			return true, last
		}
		if mode == 2 {
			for _, v := range raceViolations(prop, last) {
				if v.Class == class {
					return true, "REPLAY-VIOLATION class=" + class + " (attempt " + strconv.Itoa(i+1) + ")\n" + v.Msg + "\n"
				}
			}
		}
	}
	return false, last
}

func cmdRun(prop string, args []string) int {
	cfg := props[prop]
	if cfg == nil {
		die(2, "no check for property %s", prop)
	}
	tier := os.Getenv("VERIF_TIER")
	runsOverride := 0
	detOverride := 0
	keep := false
	for i := 0; i < len(args); i++ {
		switch args[i] {
		case "--tier":
			i++
			tier = args[i]
		case "--runs":
			i++
			runsOverride, _ = strconv.Atoi(args[i])
		case "--keep":
			keep = true
		case "--det":
			i++
			detOverride, _ = strconv.Atoi(args[i])
		}
	}
	if tier == "" {
		tier = "quick"
	}
	tc := cfg.Quick
	if tier == "thorough" {
		tc = cfg.Thorough
	}
	if runsOverride > 0 {
		tc.Runs = runsOverride
		if tc.RaceRuns > 0 {
			tc.RaceRuns = runsOverride / 8
		}
	}
	if detOverride > 0 {
		tc.DetRuns = detOverride
	}
	if v, err := strconv.Atoi(os.Getenv("VERIF_SHRINK_SECONDS")); err == nil && v > 0 {
		tc.ShrinkSec = v // a shorter minimisation budget (re-checks of many seeded changes); the verdict does not depend on it
	}
	seed := uint64(20260929)
	if tier == "thorough" {
		seed = 7777
	}
	if v := os.Getenv("VERIF_SEED"); v != "" {
		n, err := strconv.ParseInt(v, 10, 64)
		if err != nil {
			die(2, "VERIF_SEED: %v", err)
		}
		seed = uint64(n)
	}
	fmt.Printf("check %s tier=%s VERIF_SEED=%d runs=%d race_runs=%d\n", prop, tier, seed, tc.Runs, tc.RaceRuns)
	t0 := time.Now()
	b := prepare(tc.RaceRuns > 0)
	if !keep {
		defer os.RemoveAll(b.Scratch)
	} else {
		fmt.Println("scratch kept at", b.Scratch)
	}
	fmt.Printf("built instrumented tree in %.1fs (%d sites, table hash %s)\n", b.BuildSec, b.Sites, b.SiteHash)

	outDir := filepath.Join(b.Scratch, "out")
	os.MkdirAll(outDir, 0o755)
	var jobs []job
	for from := 0; from < tc.Runs; from += tc.Chunk {
		to := from + tc.Chunk
		if to > tc.Runs {
			to = tc.Runs
		}
		jobs = append(jobs, job{From: uint64(from), To: uint64(to), Mode: 1, Bin: b.Bin, Out: filepath.Join(outDir, fmt.Sprintf("s-%d.jsonl", from))})
	}
	// determinism self-check: the first DetRuns indices again, each twice in-process plus a tape replay,
	// in separate processes at GOMAXPROCS 1/4/16; compared below with the main batch
	detChunk := (tc.DetRuns + 2) / 3
	if detChunk > tc.Chunk {
		detChunk = tc.Chunk // large self-checks (--det N) are spread over many worker processes
	}
	for k, from := 0, 0; from < tc.DetRuns && from < tc.Runs && detChunk > 0; k, from = k+1, from+detChunk {
		to := from + detChunk
		if to > tc.DetRuns {
			to = tc.DetRuns
		}
		if to > tc.Runs {
			to = tc.Runs
		}
		mp := []int{1, 4, 16}[k%3]
		jobs = append(jobs, job{From: uint64(from), To: uint64(to), Mode: 1, Det: true, MaxProcs: mp, Bin: b.Bin, Out: filepath.Join(outDir, fmt.Sprintf("d-%d.jsonl", from))})
	}
	raceChunk := tc.Chunk / 4
	if raceChunk < 10 {
		raceChunk = 10
	}
	for from := 0; from < tc.RaceRuns; from += raceChunk {
		to := from + raceChunk
		if to > tc.RaceRuns {
			to = tc.RaceRuns
		}
		jobs = append(jobs, job{From: uint64(from), To: uint64(to), Mode: 2, Bin: b.RaceBin, Out: filepath.Join(outDir, fmt.Sprintf("r-%d.jsonl", from))})
	}
	workers := runtime.NumCPU()
	if v := os.Getenv("VERIF_WORKERS"); v != "" {
		workers, _ = strconv.Atoi(v)
	}
	perJob := 20 * time.Minute
	if tier == "quick" {
		perJob = 6 * time.Minute // a quick chunk takes well under a minute; a worker that is still busy after six is stuck
	}
	if v, err := strconv.Atoi(os.Getenv("VERIF_WATCHDOG_MINUTES")); err == nil && v > 0 {
		perJob = time.Duration(v) * time.Minute
	}
	failedJob := map[string]bool{}
	skipped := 0
	jc := make(chan job)
	var wg sync.WaitGroup
	var mu sync.Mutex
	var jobErrs []string
	for w := 0; w < workers; w++ {
		wg.Add(1)
		go func() {
			defer wg.Done()
			for j := range jc {
				mu.Lock()
				giveUp := len(jobErrs) >= 2
				if giveUp {
					// two workers already hung or died: a tree that spins does so in most chunks, and every one of them would sit
					// out the watchdog. The chunks that finished decide; the rest are not started
					failedJob[j.Out] = true
					skipped++
				}
				mu.Unlock()
				if giveUp {
					continue
				}
				if err := runJob(b, prop, seed, tier, j, perJob); err != nil {
					mu.Lock()
					jobErrs = append(jobErrs, err.Error())
					failedJob[j.Out] = true
					mu.Unlock()
				}
			}
		}()
	}
	for _, j := range jobs {
		jc <- j
	}
	close(jc)
	wg.Wait()
	// (a worker that hangs or dies is trouble of the harness - unless the tree under test makes it hang, e.g. a scanner that
	// spins for ever in a free-running leg, and then the same tree usually fails an oracle in the other leg in a way that replays:
	// decided at the end, like the other harness verdicts)

	// collect
	var main, det, race []runResult
	for _, j := range jobs {
		if failedJob[j.Out] {
			continue
		}
		rs, err := readResults(j.Out)
		if err != nil {
			die(2, "results %s: %v", j.Out, err)
		}
		if uint64(len(rs)) != j.To-j.From {
			die(2, "results %s: %d lines for %d indices", j.Out, len(rs), j.To-j.From)
		}
		switch {
		case j.Mode == 2:
			// race reports of this worker process, attributed to runs by log offset
			flagged, nrep := 0, 0
			var data []byte
			if rb, err := filepath.Glob(j.Out + ".race*"); err == nil && len(rb) > 0 {
				data, _ = os.ReadFile(rb[0])
			}
			var prev int64
			for i := range rs {
				if rs[i].RaceFlag {
					flagged++
				}
				off := rs[i].RaceLogOff
				if i == len(rs)-1 || off > int64(len(data)) {
					off = int64(len(data))
				}
				if off > prev {
					vs := raceViolations(prop, string(data[prev:off]))
					nrep += len(vs)
					rs[i].Viol = append(rs[i].Viol, vs...)
					prev = off
				}
			}
			if flagged > 0 && nrep == 0 {
				rs[0].Viol = append(rs[0].Viol, violation{Class: "HARNESS-race-report-missing", Msg: "the race detector failed a run but no report was found in " + j.Out + ".race*"})
			}
			race = append(race, rs...)
		case j.Det:
			det = append(det, rs...)
		default:
			main = append(main, rs...)
		}
	}
	sort.Slice(main, func(i, k int) bool { return main[i].Index < main[k].Index })
	byIdx := map[uint64]*runResult{}
	for i := range main {
		byIdx[main[i].Index] = &main[i]
	}
	// harness: the simulator itself misbehaved (nondeterminism, a run it could not drive): fatal, exit 2 at once.
	// inconclusive: a world could not read what the program printed (HARNESS-parse, -exit, -rows): fatal only if no genuine
	// violation replays - a tree that garbles its output usually breaks an oracle that can read it as well, and that one counts.
	harness := []string{}
	inconclusive := []string{}
	worldLevel := func(class string) bool {
		return strings.HasSuffix(class, "HARNESS-parse") || strings.HasSuffix(class, "HARNESS-exit") || strings.HasSuffix(class, "HARNESS-rows")
	}
	for _, d := range det {
		for _, v := range d.Viol {
			if strings.HasPrefix(v.Class, "HARNESS-") && !worldLevel(v.Class) {
				harness = append(harness, fmt.Sprintf("index %d: %s: %s", d.Index, v.Class, v.Msg))
			}
		}
		m := byIdx[d.Index]
		if m != nil && (m.DetHash != d.DetHash || m.Hash != d.Hash || m.Steps != d.Steps) {
			harness = append(harness, fmt.Sprintf("index %d: run differs between processes/GOMAXPROCS: det %s vs %s, schedule %s vs %s, steps %d vs %d", d.Index, m.DetHash, d.DetHash, m.Hash, d.Hash, m.Steps, d.Steps))
		}
	}
	for _, r := range append(append([]runResult{}, main...), race...) {
		for _, v := range r.Viol {
			if strings.Contains(v.Class, "HARNESS-") {
				if worldLevel(v.Class) {
					inconclusive = append(inconclusive, fmt.Sprintf("index %d: %s: %s", r.Index, v.Class, clip(v.Msg, 300)))
				} else {
					harness = append(harness, fmt.Sprintf("index %d: %s: %s", r.Index, v.Class, v.Msg))
				}
			}
		}
	}
	// (decided below: a tree with a data race can make a run differ between two executions of one schedule - goroutines
	// that wake at the same fake instant run in parallel until their next yield - and the same tree then usually breaks an
	// oracle in a way that replays; only when nothing genuine replays is this the harness's own trouble)

	// violations by class
	known := loadKnown()
	type hit struct {
		r *runResult
		v violation
	}
	firstByClass := map[string]hit{}
	countByClass := map[string]int{}
	all := append(append([]runResult{}, main...), race...)
	for i := range all {
		r := &all[i]
		for _, v := range r.Viol {
			if strings.Contains(v.Class, "HARNESS-") {
				continue // world-level, handled below
			}
			countByClass[v.Class]++
			if _, ok := firstByClass[v.Class]; !ok {
				firstByClass[v.Class] = hit{r, v}
			}
		}
	}
	classes := make([]string, 0, len(firstByClass))
	for c := range firstByClass {
		classes = append(classes, c)
	}
	sort.Strings(classes)
	exit := 0
	nViol := 0
	var knownLines, violLines, noRepro []string
	shrunk := 0
	for _, c := range classes {
		h := firstByClass[c]
		// a class counts as known only if every occurrence matches a listed finding
		allKnown := true
		var kf *knownFinding
		for i := range all {
			for _, v := range all[i].Viol {
				if v.Class == c {
					if k := matchKnown(known, prop, v); k != nil {
						kf = k
					} else {
						allKnown = false
						if h.r != &all[i] && matchKnown(known, prop, h.v) != nil {
							h = hit{&all[i], v} // report an occurrence that is NOT covered by the list
						}
					}
				}
			}
		}
		if allKnown && kf != nil {
			knownLines = append(knownLines, fmt.Sprintf("KNOWN-FINDING: property=%s %s (%d occurrences of class %s in this run)", prop, kf.What, countByClass[c], c))
			continue
		}
		nViol += countByClass[c]
		if shrunk >= 3 {
			// reported, not replayed: the exit status is decided by the three classes that were
			violLines = append(violLines, fmt.Sprintf("further violation class %s (%d occurrences), first at index %d: %s", c, countByClass[c], h.r.Index, clip(h.v.Msg, 300)))
			continue
		}
		shrunk++
		os.MkdirAll(verifDir+"/replays", 0o755)
		// candidates: the first occurrence, then up to two more runs of the same class (a violation whose cause lies in a
		// source of nondeterminism outside the simulator may not reproduce; another occurrence may)
		cands := []hit{h}
		for i := range all {
			if len(cands) >= 3 {
				break
			}
			if &all[i] == h.r {
				continue
			}
			for _, v := range all[i].Viol {
				if v.Class == c && matchKnown(known, prop, v) == nil {
					cands = append(cands, hit{&all[i], v})
					break
				}
			}
		}
		fmt.Printf("violation class %s (%d occurrences), first at index %d; minimising…\n", c, countByClass[c], h.r.Index)
		reproduced := false
		for ci, h := range cands {
			rp := fmt.Sprintf("%s/replays/%s-%d-%s.json", verifDir, prop, h.r.Seed, sanitize(c))
			bin := b.Bin
			if h.r.Mode == 2 {
				bin = b.RaceBin
			}
			if h.r.Mode == 2 {
				// race leg: the interleaving is not controlled; the replay file keeps the seed and the report
				writeRaceReplay(rp, prop, seed, tier, h.r, h.v, b.SiteHash)
			} else {
				cmd := exec.Command(bin, "-test.run", "^TestSim$", "-test.timeout", "0", "-test.count", "1", "-test.v")
				cmd.Dir = b.Scratch
				cmd.Env = append(os.Environ(), "SIM_PROP="+prop, "SIM_BASE="+strconv.FormatUint(seed, 10), "SIM_SHRINK="+strconv.FormatUint(h.r.Index, 10),
					"SIM_REPLAY_OUT="+rp, "SIM_SHRINK_CLASS="+c, "SIM_MODE=1", "SIM_TIER="+tier, "SIM_SCRATCH="+b.Scratch, "SIM_SITEHASH="+b.SiteHash, "SIM_SHRINK_SECONDS="+strconv.Itoa(tc.ShrinkSec))
				out, err := cmd.CombinedOutput()
				if err != nil || !strings.Contains(string(out), "SHRINK-DONE") {
					fmt.Printf("HARNESS: violation at index %d (class %s, candidate %d of %d) did not reproduce in the minimiser process:\n%s\n%s\n", h.r.Index, c, ci+1, len(cands), h.v.Msg, tail(string(out), 3000))
					continue
				}
				fmt.Print(grepLines(string(out), "SHRINK-"))
			}
			ok, rout := replayOnce(b, prop, rp, c, h.r.Mode)
			if !ok {
				fmt.Printf("HARNESS: replay file %s (candidate %d of %d) did not reproduce class %s in a fresh process:\n%s\n%s\n", rp, ci+1, len(cands), c, h.v.Msg, tail(rout, 3000))
				os.Remove(rp)
				continue
			}
			violLines = append(violLines, fmt.Sprintf("%s\nVIOLATION property=%s replay=%s", clip(h.v.Msg, 1500), prop, rp))
			exit = 1
			reproduced = true
			break
		}
		if !reproduced && h.r.Mode != 2 {
			// last resort: state that survives between simulated runs of one worker process (a process-wide cache, a
			// singleton): replay the earlier runs of that worker's chunk first
			from := (h.r.Index / uint64(tc.Chunk)) * uint64(tc.Chunk)
			rp := fmt.Sprintf("%s/replays/%s-%d-%s.json", verifDir, prop, h.r.Seed, sanitize(c))
			cmd := exec.Command(b.Bin, "-test.run", "^TestSim$", "-test.timeout", "0", "-test.count", "1", "-test.v")
			cmd.Dir = b.Scratch
			cmd.Env = append(os.Environ(), "SIM_PROP="+prop, "SIM_BASE="+strconv.FormatUint(seed, 10), "SIM_SHRINK="+strconv.FormatUint(h.r.Index, 10), "SIM_PREFIX_FROM="+strconv.FormatUint(from, 10),
				"SIM_REPLAY_OUT="+rp, "SIM_SHRINK_CLASS="+c, "SIM_MODE=1", "SIM_TIER="+tier, "SIM_SCRATCH="+b.Scratch, "SIM_SITEHASH="+b.SiteHash)
			out, err := cmd.CombinedOutput()
			if err == nil && strings.Contains(string(out), "SHRINK-DONE") {
				fmt.Print(grepLines(string(out), "SHRINK-"))
				if ok, _ := replayOnce(b, prop, rp, c, 1); ok {
					violLines = append(violLines, fmt.Sprintf("%s\n(history-dependent: reproduces only after the simulated runs %d..%d of this batch ran in the same process)\nVIOLATION property=%s replay=%s", clip(h.v.Msg, 1500), from, h.r.Index-1, prop, rp))
					exit = 1
					reproduced = true
				} else {
					os.Remove(rp)
				}
			}
		}
		if !reproduced {
			noRepro = append(noRepro, c)
		}
	}
	if len(noRepro) > 0 {
		if exit != 1 {
			// nothing replayed: that is trouble of the harness (or of a nondeterminism it does not own), never a VIOLATION
			fmt.Printf("HARNESS: no occurrence of %v replayed in a fresh process (exit 2, nothing reported is to be believed)\n", noRepro)
			return 2
		}
		fmt.Printf("HARNESS-NOTE: classes %v were seen but did not replay; the VIOLATION lines below are for classes that did\n", noRepro)
	}

	if len(jobErrs) > 0 {
		if exit != 1 {
			fmt.Println("HARNESS: worker trouble (exit 2):")
			for _, e := range jobErrs {
				fmt.Println(e)
			}
			return 2
		}
		fmt.Printf("HARNESS-NOTE: %d worker processes hung or died, %d chunks were not started after that (first: %s); the VIOLATION lines below are for violations that replayed in a fresh process\n", len(jobErrs), skipped, clip(jobErrs[0], 400))
	}
	if len(harness) > 0 {
		if exit != 1 {
			fmt.Println("HARNESS: the simulator itself misbehaved (exit 2, nothing reported is to be believed):")
			for i, h := range harness {
				if i > 10 {
					break
				}
				fmt.Println(" ", h)
			}
			return 2
		}
		fmt.Printf("HARNESS-NOTE: %d runs were not repeatable (first: %s); the VIOLATION lines below are for violations that replayed in a fresh process\n", len(harness), clip(harness[0], 300))
	}
	if len(inconclusive) > 0 {
		if exit != 1 {
			fmt.Println("HARNESS: a world could not read the program's output and no genuine violation replayed (exit 2, nothing reported is to be believed):")
			for i, h := range inconclusive {
				if i > 10 {
					break
				}
				fmt.Println(" ", h)
			}
			return 2
		}
		fmt.Printf("HARNESS-NOTE: in %d runs a world could not read the program's output (first: %s); the VIOLATION lines below are for oracles that could\n", len(inconclusive), inconclusive[0])
	}
	wall := time.Since(t0).Seconds()
	writeEvidence(prop, cfg, tier, seed, tc, b, main, det, race, nViol, wall, knownLines)
	for _, l := range knownLines {
		fmt.Println(l)
	}
	for _, l := range violLines {
		fmt.Println(l)
	}
	fmt.Printf("check %s tier=%s: %d simulated runs (+%d race-leg runs, %d determinism re-runs) in %.1fs; violations=%d known=%d\n", prop, tier, len(main), len(race), len(det), wall, nViol, len(knownLines))
	return exit
}

func sanitize(s string) string {
	return regexp.MustCompile(`[^A-Za-z0-9_.-]+`).ReplaceAllString(s, "_")
}

func clip(s string, n int) string {
	if len(s) > n {
		return s[:n] + "…"
	}
	return s
}

func grepLines(s, sub string) string {
	var out []string
	for _, l := range strings.Split(s, "\n") {
		if strings.Contains(l, sub) {
			out = append(out, l)
		}
	}
	if len(out) == 0 {
		return ""
	}
	return strings.Join(out, "\n") + "\n"
}

var raceFrame = regexp.MustCompile(`(?m)^  (\S+)\(\)\n      (\S+):(\d+)`)

// raceTop returns the first frame of an access stack that lies in rare's own code (skipping
// sync/atomic, runtime and simrt wrappers), as "function (file:line of the instrumented copy)".
func raceTop(part string) (fn, loc string) {
	all := raceFrame.FindAllStringSubmatch(part, -1)
	// prefer the innermost frame in rare's own packages; fall back to the innermost non-runtime frame
	for _, m := range all {
		if strings.HasPrefix(m[1], "rare/") || strings.HasPrefix(m[1], "rare.") {
			file := m[2]
			if i := strings.Index(file, "/rare/"); i >= 0 {
				file = file[i+len("/rare/"):]
			}
			return m[1], file + ":" + m[3]
		}
	}
	for _, m := range all {
		f := m[1]
		if strings.HasPrefix(f, "sync/atomic.") || strings.HasPrefix(f, "runtime.") || strings.HasPrefix(f, "simrt.") || strings.HasPrefix(f, "sync.") || strings.HasPrefix(f, "internal/") {
			continue
		}
		file := m[2]
		if i := strings.Index(file, "/rare/"); i >= 0 {
			file = file[i+len("/rare/"):]
		}
		return f, file + ":" + m[3]
	}
	return "?", "?"
}

// raceViolations turns race-detector reports into violations, one class per pair of functions.
func raceViolations(prop, report string) []violation {
	var out []violation
	for _, blk := range strings.Split(report, "==================") {
		if !strings.Contains(blk, "DATA RACE") {
			continue
		}
		parts := regexp.MustCompile(`(?m)^(Read|Write|Previous read|Previous write|Atomic read|Atomic write|Previous atomic read|Previous atomic write)[^\n]*\n`).Split(blk, -1)
		var fns, locs []string
		for _, part := range parts[1:] {
			// an access stack ends at the first blank line
			if k := strings.Index(part, "\n\n"); k >= 0 {
				part = part[:k]
			}
			f, l := raceTop(part)
			fns = append(fns, f)
			locs = append(locs, l)
			if len(fns) == 2 {
				break
			}
		}
		sort.Strings(fns)
		out = append(out, violation{Class: prop + "/data-race:" + strings.Join(fns, "~"), Msg: "data race between " + strings.Join(fns, " and ") + " (instrumented copy: " + strings.Join(locs, ", ") + ")\n" + clip(blk, 3000)})
	}
	return out
}

func writeRaceReplay(path, prop string, base uint64, tier string, r *runResult, v violation, siteHash string) {
	rf := map[string]any{"property": prop, "index": r.Index, "seed": r.Seed, "faults": r.Faults, "mode": 2, "tier": tier, "streams": [3][]uint32{}, "class": v.Class,
		"message": v.Msg, "workload": r.Sample, "site_table_hash": siteHash, "base": base,
		"shrink": "race leg: the interleaving is real and not controlled; replay re-runs this seed up to 200 times under -race and succeeds when the same class is reported"}
	bb, _ := json.MarshalIndent(rf, "", " ")
	os.WriteFile(path, bb, 0o644)
}

func writeEvidence(prop string, cfg *propCfg, tier string, seed uint64, tc tierCfg, b *build, main, det, race []runResult, nViol int, wall float64, knownLines []string) {
	distinct := map[string]bool{}
	allHashes := map[string]bool{}
	var steps, multi, bubbles, cases int64
	var simNs int64
	probes := map[string]int64{}
	fired := map[string]int64{}
	ends := map[string]int{}
	var samples []json.RawMessage
	faultRuns := 0
	var wallUs int64
	for _, r := range main {
		allHashes[r.Hash] = true
		if len(r.CaseHashes) > 0 {
			for _, h := range r.CaseHashes {
				distinct[h] = true
			}
		} else if r.Nontrivial {
			distinct[r.Hash] = true
		}
		if r.Cases > 0 {
			cases += int64(r.Cases)
		} else {
			cases++
		}
		steps += int64(r.Steps)
		multi += int64(r.Multi)
		bubbles += int64(r.Bubbles)
		simNs += r.SimNanos
		wallUs += r.WallMicros
		for k, v := range r.Probes {
			probes[k] += v
		}
		for k, v := range r.Fired {
			fired[k] += v
		}
		for k, v := range r.EndReasons {
			ends[k] += v
		}
		if r.Faults {
			faultRuns++
		}
		if len(samples) < 4 && r.Nontrivial && len(r.Sample) > 0 && r.Index%7 == 0 {
			s, _ := json.Marshal(map[string]any{"index": r.Index, "seed": r.Seed, "faults": r.Faults, "steps": r.Steps, "decisions_with_choice": r.Multi,
				"schedule_hash": r.Hash, "simulated_ms": r.SimNanos / 1e6, "case": r.Sample, "faults_fired": r.Fired})
			samples = append(samples, s)
		}
	}
	if len(samples) == 0 && len(main) > 0 {
		s, _ := json.Marshal(map[string]any{"index": main[0].Index, "seed": main[0].Seed, "case": main[0].Sample})
		samples = append(samples, s)
	}
	raceFired := map[string]int64{}
	for _, r := range race {
		for k, v := range r.Fired {
			raceFired[k] += v
		}
	}
	perHour := 0.0
	if wall > 0 {
		perHour = float64(len(main)+len(race)) / wall * 3600
	}
	ev := map[string]any{
		"property_id": prop,
		"tier":        tier,
		"seed":        seed,
		"level":       "exploration",
		"wall_s":      wall,
		"violations":  nViol,
		"assumptions": append(append([]string{}, commonAssume...), cfg.Assume...),
		"coverage": map[string]any{
			"evaluations":                   int(cases) + len(race),
			"distinct_nontrivial":           len(distinct),
			"rule":                          cfg.Rule,
			"samples":                       samples,
			"simulated_runs":                len(main),
			"race_leg_runs":                 len(race),
			"fault_injecting_runs":          faultRuns,
			"fault_free_runs":               len(main) - faultRuns,
			"bubbles":                       bubbles,
			"distinct_schedule_hashes":      len(allHashes),
			"scheduler_steps":               steps,
			"decisions_with_choice":         multi,
			"simulated_seconds":             float64(simNs) / 1e9,
			"runs_per_hour":                 perHour,
			"worker_cpu_seconds":            float64(wallUs) / 1e6,
			"faults_fired":                  fired,
			"faults_fired_race_leg":         raceFired,
			"probes":                        probes,
			"end_reasons":                   ends,
			"determinism_selfcheck_indices": len(det),
			"determinism_selfcheck":         "each index run twice in-process and once from its recorded tape, in separate processes at GOMAXPROCS 1/4/16, and compared with the main batch: identical",
			"real_components":               cfg.Real,
			"stubbed_components":            cfg.Stubs,
			"instrumented_sites":            b.Sites,
			"site_table_hash":               b.SiteHash,
			"uncontrolled_map_ranges":       b.Unctl,
			"build_seconds":                 b.BuildSec,
			"known_findings_reported":       knownLines,
			"exhaustive":                    false,
		},
	}
	os.MkdirAll(verifDir+"/evidence", 0o755)
	bb, _ := json.MarshalIndent(ev, "", " ")
	if err := os.WriteFile(fmt.Sprintf("%s/evidence/%s.json", verifDir, prop), bb, 0o644); err != nil {
		die(2, "evidence: %v", err)
	}
}
