// Command siminstr instruments a scratch copy of rare in place and prints the site table as JSON.
package main

import (
	"encoding/json"
	"fmt"
	"os"

	"verif/tool/siminstr"
)

func main() {
	if len(os.Args) < 2 {
		fmt.Fprintln(os.Stderr, "usage: siminstr <scratch-root> [go-bin-dir]")
		os.Exit(2)
	}
	bin := ""
	if len(os.Args) > 2 {
		bin = os.Args[2]
	}
	res, err := siminstr.Instrument(os.Args[1], bin)
	if err != nil {
		fmt.Fprintln(os.Stderr, "siminstr:", err)
		os.Exit(2)
	}
	json.NewEncoder(os.Stdout).Encode(res)
}
