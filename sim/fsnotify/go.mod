module github.com/fsnotify/fsnotify

go 1.25

require simrt v0.0.0

replace simrt => ../simrt
