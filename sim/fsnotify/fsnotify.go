// Package fsnotify is the simulator's drop-in stub for github.com/fsnotify/fsnotify v1.4.9 on
// Linux (the inotify back end), wired into the instrumented scratch copy of rare with a `replace`
// line. It models what rare depends on:
//
//   - one kernel event queue per Watcher (one inotify fd), FIFO, no loss, no reordering;
//   - inotify's coalescing: an event identical to the newest unread event of the queue is dropped;
//   - fsnotify's reader goroutine: read() takes everything queued, then events are sent one at a
//     time on the unbuffered Events channel; events other than Remove/Rename whose file no longer
//     exists at that moment are ignored (Event.ignoreLinux in the real package);
//   - Close closes Events and Errors after the reader goroutine has stopped.
//
// Events are produced by the world's writer client through SimNotify after it performed the real
// file operation. Delivery is as late as the simulated scheduler makes it.
package fsnotify

import (
	"bytes"
	"errors"
	"fmt"
	"os"
	"path/filepath"
	"sync"

	"simrt"
)

// Event represents a single file system notification.
type Event struct {
	Name string // Relative path to the file or directory.
	Op   Op     // File operation that triggered the event.
}

// Op describes a set of file operations.
type Op uint32

// These are the generalized file operations that can trigger a notification.
const (
	Create Op = 1 << iota
	Write
	Remove
	Rename
	Chmod
)

func (op Op) String() string {
	var buffer bytes.Buffer
	if op&Create == Create {
		buffer.WriteString("|CREATE")
	}
	if op&Remove == Remove {
		buffer.WriteString("|REMOVE")
	}
	if op&Write == Write {
		buffer.WriteString("|WRITE")
	}
	if op&Rename == Rename {
		buffer.WriteString("|RENAME")
	}
	if op&Chmod == Chmod {
		buffer.WriteString("|CHMOD")
	}
	if buffer.Len() == 0 {
		return ""
	}
	return buffer.String()[1:]
}

func (e Event) String() string { return fmt.Sprintf("%q: %s", e.Name, e.Op.String()) }

// Common errors that can be reported by a watcher
var ErrEventOverflow = errors.New("fsnotify queue overflow")

// Watcher watches a set of directories, delivering events to a channel.
type Watcher struct {
	Events chan Event
	Errors chan error

	mu       sync.Mutex
	dirs     map[string]string // absolute dir -> name as given to Add
	queue    []Event           // the kernel queue of this inotify fd
	wake     chan struct{}
	done     chan struct{}
	doneResp chan struct{}
}

var (
	hubMu    sync.Mutex
	watchers []*Watcher
	// Stats counts what the stub did in the current run.
	Stats = map[string]int64{}
)

// SimReset forgets the watchers of earlier runs. Worlds call it before a run starts.
func SimReset() {
	hubMu.Lock()
	watchers = nil
	Stats = map[string]int64{}
	hubMu.Unlock()
}

// SimStats returns a copy of the counters.
func SimStats() map[string]int64 {
	hubMu.Lock()
	defer hubMu.Unlock()
	out := map[string]int64{}
	for k, v := range Stats {
		out[k] = v
	}
	return out
}

func stat(name string) {
	hubMu.Lock()
	Stats[name]++
	hubMu.Unlock()
}

// SimNotify queues the inotify event for a file operation the world just performed on path.
func SimNotify(path string, op Op) {
	abs, err := filepath.Abs(path)
	if err != nil {
		panic(err)
	}
	dir, base := filepath.Dir(abs), filepath.Base(abs)
	hubMu.Lock()
	ws := append([]*Watcher(nil), watchers...)
	hubMu.Unlock()
	for _, w := range ws {
		w.mu.Lock()
		name, ok := w.dirs[dir]
		if ok {
			ev := Event{Name: name + "/" + base, Op: op}
			if n := len(w.queue); n > 0 && w.queue[n-1] == ev {
				// inotify coalesces an event identical to the newest unread one
				w.mu.Unlock()
				stat("event-coalesced")
				continue
			}
			w.queue = append(w.queue, ev)
			stat("event-queued")
		}
		w.mu.Unlock()
		if ok {
			select {
			case w.wake <- struct{}{}:
			default:
			}
		}
	}
	simrt.Yield("fsnotify:notify")
}

// NewWatcher establishes a new watcher and begins waiting for events.
func NewWatcher() (*Watcher, error) {
	w := &Watcher{
		Events:   make(chan Event),
		Errors:   make(chan error),
		dirs:     map[string]string{},
		wake:     make(chan struct{}, 1),
		done:     make(chan struct{}),
		doneResp: make(chan struct{}),
	}
	hubMu.Lock()
	watchers = append(watchers, w)
	hubMu.Unlock()
	simrt.Go("fsnotify:readEvents", w.readEvents)
	return w, nil
}

func (w *Watcher) isClosed() bool {
	select {
	case <-w.done:
		return true
	default:
		return false
	}
}

// Close removes all watches and closes the events channel.
func (w *Watcher) Close() error {
	if w.isClosed() {
		return nil
	}
	close(w.done)
	simrt.Yield("fsnotify:close")
	<-w.doneResp
	simrt.Yield("fsnotify:closed")
	return nil
}

// Add starts watching the named directory (non-recursively).
func (w *Watcher) Add(name string) error {
	name = filepath.Clean(name)
	if w.isClosed() {
		return errors.New("inotify instance already closed")
	}
	abs, err := filepath.Abs(name)
	if err != nil {
		return err
	}
	if _, err := os.Stat(abs); err != nil {
		return err
	}
	w.mu.Lock()
	w.dirs[abs] = name
	w.mu.Unlock()
	return nil
}

// Remove stops watching the named file or directory.
func (w *Watcher) Remove(name string) error {
	abs, err := filepath.Abs(filepath.Clean(name))
	if err != nil {
		return err
	}
	w.mu.Lock()
	defer w.mu.Unlock()
	if _, ok := w.dirs[abs]; !ok {
		return fmt.Errorf("can't remove non-existent inotify watch for: %s", name)
	}
	delete(w.dirs, abs)
	return nil
}

func (w *Watcher) readEvents() {
	defer close(w.doneResp)
	defer close(w.Errors)
	defer close(w.Events)
	for {
		if w.isClosed() {
			return
		}
		// read(): everything that is queued
		w.mu.Lock()
		batch := w.queue
		w.queue = nil
		w.mu.Unlock()
		if len(batch) == 0 {
			k0, k1 := simrt.Recv(w.wake), simrt.Recv(w.done)
			i := simrt.Select("fsnotify:poll", false, k0, k1)
			simrt.Yield("fsnotify:poll")
			if i == 1 {
				return
			}
			continue
		}
		stat("read-batches")
		for _, ev := range batch {
			if !(ev.Op&Remove == Remove || ev.Op&Rename == Rename) {
				if _, err := os.Lstat(ev.Name); os.IsNotExist(err) {
					stat("event-ignored-file-gone")
					continue
				}
			}
			k0, k1 := simrt.Send(w.Events, ev), simrt.Recv(w.done)
			i := simrt.Select("fsnotify:send", false, k0, k1)
			simrt.Yield("fsnotify:send")
			if i == 1 {
				return
			}
			stat("event-delivered")
		}
	}
}
