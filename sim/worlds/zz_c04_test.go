package main

// C04 world: one readahead scanner over a scripted reader. There are no goroutines here: the
// "schedule" is the partition of the byte stream into Read results (chunk sizes, 0-byte stalls,
// data-with-EOF, and in the fault sub-batch one injected non-EOF error), all drawn from the tape.

import (
	"bytes"
	"errors"
	"fmt"
	"io"
	"strconv"
	"time"

	"rare/pkg/readahead"
	"simrt"
)

var errC04Injected = errors.New("c04: injected read error")

type c04Spin struct{}

// lines handed out by the previous case's scanner, re-read after the next scanner has run (a scanner that
// recycles buffers through a shared pool overwrites them)
var c04PrevHeld, c04PrevSnap [][]byte
var c04PrevDesc string

// c04Reader hands out data as the tape dictates and records what it did.
type c04Reader struct {
	t        *simrt.Tape
	data     []byte
	pos      int
	errAt    int  // inject the error once this many bytes were handed over; <0 never
	errData  bool // deliver the last chunk together with the error
	eofData  bool // deliver the last chunk together with io.EOF
	stalls   bool
	stallRun int
	ended    bool // io.EOF or the injected error was returned
	errGiven bool
	script   []string
	afterEnd int // reads issued after the stream had ended
	zeroLenP int // reads with len(p)==0
	boundaryInLine bool
	errVal    error // the injected error (a custom error, or io.ErrUnexpectedEOF as a truncated gzip stream gives)
	transient bool  // the error is returned once; later reads would hand out the rest of the data
	endPos    int   // bytes handed out when the stream ended (EOF or error)
	stallPm   int   // per-mille chance of a (0,nil) read (0: one in six)
	stallMax  int   // longest run of consecutive (0,nil) reads (0: 3)
	aligned   bool  // every data-carrying read ends right after a '\n' when one is in reach
}

func (r *c04Reader) limit() int {
	if r.errAt >= 0 && r.errAt < len(r.data) {
		return r.errAt
	}
	return len(r.data)
}

func (r *c04Reader) Read(p []byte) (int, error) {
	if r.ended {
		r.afterEnd++
		if r.errGiven && r.transient && r.pos < len(r.data) {
			// a reader whose error is not sticky: a scanner that keeps reading after the error gets more bytes
			n := copy(p, r.data[r.pos:])
			r.pos += n
			r.script = append(r.script, strconv.Itoa(n)+",nil(after-error)")
			return n, nil
		}
		if r.errGiven && !r.transient {
			return 0, r.errVal
		}
		return 0, io.EOF
	}
	if len(p) == 0 {
		r.zeroLenP++
		if r.zeroLenP > 5000 {
			// a scanner that keeps asking with an empty buffer will never make progress
			panic(c04Spin{})
		}
		return 0, nil
	}
	lim := r.limit()
	willErr := r.errAt >= 0 && r.errAt <= len(r.data)
	stallMax, stallPm := 3, 167
	if r.stallMax > 0 {
		stallMax = r.stallMax
	}
	if r.stallPm > 0 {
		stallPm = r.stallPm
	}
	if r.stalls && r.stallRun < stallMax && r.t.F(1000) < stallPm {
		r.stallRun++
		r.script = append(r.script, "0,nil")
		return 0, nil
	}
	r.stallRun = 0
	rem := lim - r.pos
	if rem == 0 {
		r.ended = true
		if willErr {
			r.errGiven = true
			r.endPos = r.pos
			r.script = append(r.script, "0,ERR")
			return 0, r.errVal
		}
		r.script = append(r.script, "0,EOF")
		return 0, io.EOF
	}
	max := len(p)
	if rem < max {
		max = rem
	}
	k := max
	switch r.t.F(4) {
	case 1:
		k = 1
	case 2:
		k = 1 + r.t.F(max)
	case 3:
		if max > 3 {
			k = 1 + r.t.F(3)
		}
	}
	if r.aligned {
		// whole lines only: cut after the last '\n' within reach (1-3 lines)
		want := 1 + r.t.F(3)
		k = max
		seen := 0
		for i := 0; i < max; i++ {
			if r.data[r.pos+i] == '\n' {
				seen++
				if seen == want {
					k = i + 1
					break
				}
			}
		}
	}
	copy(p, r.data[r.pos:r.pos+k])
	r.pos += k
	if r.pos < lim && r.data[r.pos-1] != '\n' {
		r.boundaryInLine = true
	}
	if r.pos == lim {
		if willErr && r.errData {
			r.ended, r.errGiven = true, true
			r.endPos = r.pos
			r.script = append(r.script, strconv.Itoa(k)+",ERR")
			return k, r.errVal
		}
		if !willErr && r.eofData {
			r.ended = true
			r.script = append(r.script, strconv.Itoa(k)+",EOF")
			return k, io.EOF
		}
	}
	r.script = append(r.script, strconv.Itoa(k)+",nil")
	return k, nil
}

var c04Alphabets = [][]byte{
	[]byte("\n\n\ra"),
	[]byte("\n\rab"),
	[]byte("\n\n\n\r\rabcdefgh \x00\xff"),
	[]byte("\naaaaaaa"),
	[]byte("\r\n"),
}

func c04GenData(t *simrt.Tape) []byte {
	var n int
	switch t.W(6) {
	case 0:
		n = t.W(4)
	case 1, 2:
		n = t.W(12)
	case 3, 4:
		n = t.W(48)
	default:
		n = t.W(201)
	}
	al := c04Alphabets[t.W(len(c04Alphabets))]
	b := make([]byte, n)
	for i := range b {
		b[i] = al[t.W(len(al))]
	}
	// sometimes force CRLF line ends and a long line
	if n > 8 && t.WBool(1, 5) {
		for i := 1; i < n; i++ {
			if b[i] == '\n' && t.WBool(1, 2) {
				b[i-1] = '\r'
			}
		}
	}
	return b
}

type c04Case struct {
	Kind    string `json:"scanner"`
	BufSize int    `json:"buf"`
	Data    string `json:"data"`
	ErrAt   int    `json:"err_at"`
	Script  string `json:"reads"`
}

// c04One runs one case; returns its description, a hash and whether it is non-trivial.
func c04One(rc *RunCtx) (c04Case, uint64, bool) {
	t := rc.Tape
	data := c04GenData(t)
	rd := &c04Reader{t: t, data: data, errAt: -1, errVal: errC04Injected}
	rd.stalls = t.FBool(1, 3)
	long := t.WBool(1, 24)
	longBuf := 0
	if long {
		// a long stream of short lines under a reader that stalls often (in total, or in long runs) and may hand
		// out whole lines only: a scanner that counts or limits empty reads shows here
		n := t.WRange(100, 400)
		// sometimes longer than a mid-sized buffer (1-4 KiB), so that the buffer fills up, is nearly full when a short read
		// ends, and rolls over several times
		longBuf = []int{0, 0, 1024, 1500, 2048, 4096}[t.W(6)]
		if longBuf > 0 {
			n = t.WRange(longBuf/3, longBuf)
		}
		var b bytes.Buffer
		for i := 0; i < n; i++ {
			for k := t.W(6); k > 0; k-- {
				b.WriteByte("abc\r"[t.W(4)])
			}
			b.WriteByte('\n')
		}
		data = b.Bytes()
		rd.data = data
		rd.stalls = true
		rd.stallPm = []int{300, 500, 800}[t.F(3)]
		rd.stallMax = []int{1, 3, 150}[t.F(3)]
		rd.aligned = t.FBool(2, 3)
		rc.Probes["long-stall-stream"]++
	}
	rd.eofData = t.FBool(1, 3)
	if rc.Faults && t.FBool(4, 5) {
		rd.errAt = t.F(len(data) + 1)
		rd.errData = t.FBool(1, 2)
		rd.transient = t.FBool(1, 3)
		switch t.F(8) {
		case 0, 1:
			rd.errVal = io.ErrUnexpectedEOF
		case 2, 3:
			// an error that calls itself temporary (EAGAIN, EINTR through a wrapper): still a non-EOF read error - it is
			// reported once, ends the stream, and the bytes that came with it or before it are delivered as lines
			rd.errVal = errC04Temporary
		}
	}
	var sc readahead.Scanner
	cs := c04Case{ErrAt: rd.errAt}
	if t.WBool(1, 2) {
		cs.Kind = "immediate"
		cs.BufSize = 1 + t.W(64)
		switch t.W(12) {
		case 0:
			cs.BufSize = 128 * 1024
		case 1, 2, 3:
			cs.BufSize = 1 + t.W(4)
		}
		if long && t.WBool(2, 3) {
			cs.BufSize = []int{4096, 128 * 1024}[t.W(2)]
		}
		if longBuf > 0 {
			cs.BufSize = longBuf
		}
		sc = readahead.NewImmediate(rd, cs.BufSize)
	} else {
		cs.Kind = "buffered"
		cs.BufSize = 2 + t.W(63)
		if t.W(4) == 0 {
			cs.BufSize = 2 + t.W(4)
		}
		sc = readahead.NewBuffered(rd, cs.BufSize)
	}
	onErr := 0
	var onErrVal error
	sc.OnError(func(e error) { onErr++; onErrVal = e })

	var held [][]byte // the slices as handed out
	var snap [][]byte // their contents at hand-out time
	budget := len(data) + 16
	spun := func() (spun bool) {
		defer func() {
			if r := recover(); r != nil {
				if _, ok := r.(c04Spin); !ok {
					panic(r)
				}
				spun = true
			}
		}()
		for i := 0; ; i++ {
			if i > budget {
				rc.Violate("scan-unbounded", "%s(buf=%d) over %q: Scan returned true more than %d times (reads: %v)", cs.Kind, cs.BufSize, data, budget, rd.script)
				break
			}
			if !sc.Scan() {
				break
			}
			b := sc.Bytes()
			held = append(held, b)
			snap = append(snap, append([]byte(nil), b...))
		}
		return false
	}()
	if spun {
		s := fmt.Sprint(rd.script)
		if len(s) > 200 {
			s = s[:200] + "…"
		}
		rc.Violate("scan-does-not-terminate", "%s(buf=%d) over %q: Scan called Read with an empty buffer more than 5000 times in a row without returning (reads so far: %s)", cs.Kind, cs.BufSize, clip(string(data), 120), s)
		return cs, 0, false
	}
	// Scan stays false
	for i := 0; i < 3; i++ {
		if sc.Scan() {
			rc.Violate("scan-after-end", "%s(buf=%d) over %q: Scan returned true again after it had returned false (token %q; reads: %v)", cs.Kind, cs.BufSize, data, sc.Bytes(), rd.script)
			break
		}
	}
	delivered := data[:rd.pos]
	if rd.errGiven {
		// a non-EOF error ends the stream: nothing handed out after it may be delivered
		delivered = data[:rd.endPos]
	}
	want := refSplit(delivered)
	cs.Data = strconv.QuoteToASCII(string(data))
	cs.Script = fmt.Sprint(rd.script)
	if len(cs.Script) > 300 {
		cs.Script = cs.Script[:300] + "…"
	}
	desc := func() string {
		return fmt.Sprintf("%s(buf=%d) data=%s delivered=%d bytes err_at=%d reads=%v", cs.Kind, cs.BufSize, cs.Data, rd.pos, rd.errAt, rd.script)
	}
	same := len(want) == len(snap)
	if same {
		for i := range want {
			if !bytes.Equal(want[i], snap[i]) {
				same = false
				break
			}
		}
	}
	if !same {
		cl := "split"
		if rd.errGiven {
			cl = "split-after-error"
		}
		rc.Violate(cl, "lines differ from the reference split of the delivered bytes\n got  %q\n want %q\n %s", snap, want, desc())
	}
	for i := range held {
		if !bytes.Equal(held[i], snap[i]) {
			rc.Violate("aliasing", "line %d was %q when handed out and reads %q after later lines were scanned\n %s", i, snap[i], held[i], desc())
			break
		}
	}
	// the lines of the previous case's scanner must have survived this scanner's life
	for i := range c04PrevHeld {
		if !bytes.Equal(c04PrevHeld[i], c04PrevSnap[i]) {
			rc.Violate("aliasing-across-scanners", "line %d of an earlier scanner was %q when handed out and reads %q after another scanner was created and run\n earlier: %s\n this: %s", i, c04PrevSnap[i], c04PrevHeld[i], c04PrevDesc, desc())
			break
		}
	}
	c04PrevHeld, c04PrevSnap, c04PrevDesc = held, snap, desc()
	if rd.errGiven {
		if onErr != 1 {
			rc.Violate("onerror-count", "a non-EOF error was returned by the reader once; OnError fired %d times\n %s", onErr, desc())
		} else if onErrVal != rd.errVal {
			rc.Violate("onerror-value", "OnError received %v\n %s", onErrVal, desc())
		}
	} else if onErr != 0 {
		rc.Violate("onerror-spurious", "no non-EOF error was injected; OnError fired %d times (%v)\n %s", onErr, onErrVal, desc())
	}
	if !rd.ended {
		rc.Violate("stopped-early", "scanner stopped before the reader reported EOF or an error\n %s", desc())
	}
	if rd.afterEnd > 0 {
		rc.Probes["read-after-end"] += int64(rd.afterEnd)
	}
	if rd.zeroLenP > 0 {
		rc.Probes["read-with-empty-buffer"] += int64(rd.zeroLenP)
	}
	// statistics
	for _, s := range rd.script {
		switch {
		case s == "0,nil":
			rc.Fired["read-stall-0-nil"]++
		case len(s) > 4 && s[len(s)-3:] == "ERR" && s[0] != '0':
			rc.Fired["read-error-with-data"]++
		case s == "0,ERR":
			rc.Fired["read-error"]++
		case len(s) > 4 && s[len(s)-3:] == "EOF" && s[0] != '0':
			rc.Fired["read-data-with-eof"]++
		}
	}
	rc.Fired["reads"] += int64(len(rd.script))
	maxLine := 0
	for _, w := range want {
		if len(w) > maxLine {
			maxLine = len(w)
		}
	}
	if maxLine >= cs.BufSize {
		rc.Probes["line-ge-buffer"]++
	}
	if maxLine == cs.BufSize || maxLine+1 == cs.BufSize {
		rc.Probes["line-eq-buffer"]++
	}
	if bytes.Contains(data, []byte("\r\n")) {
		rc.Probes["crlf-present"]++
	}
	h := uint64(1469598103934665603)
	mixb := func(b []byte) {
		for _, c := range b {
			h = (h ^ uint64(c)) * 0x100000001b3
		}
		h = (h ^ 0xff) * 0x100000001b3
	}
	mixb([]byte(cs.Kind))
	mixb([]byte(strconv.Itoa(cs.BufSize)))
	mixb(data)
	for _, s := range rd.script {
		mixb([]byte(s))
	}
	rc.Steps += len(rd.script)
	rc.Logf("%s %d %x %d lines=%d onerr=%d", cs.Kind, cs.BufSize, h, rd.pos, len(snap), onErr)
	return cs, h, rd.boundaryInLine
}

func init() {
	worlds["C04"] = func(rc *RunCtx) {
		if rc.Mode == simrt.ModeFree || (rc.Index/2)%8 == 7 {
			// the scanners as the pipeline uses them: one per input, several at a time (reader goroutines), their lines held in
			// batches and matches by other goroutines while later lines and other files are scanned. Every retained line is
			// re-read after the run (and, in the race leg, any data race on scanner memory is reported)
			c04PipelineWorld(rc)
			return
		}
		const per = 16
		c04PrevHeld, c04PrevSnap, c04PrevDesc = nil, nil, "" // runs are independent of each other
		var samples []c04Case
		for i := 0; i < per; i++ {
			cs, h, nt := c04One(rc)
			rc.Cases++
			rc.Hash = rc.Hash*0x100000001b3 ^ h
			if nt {
				rc.CaseHashes = append(rc.CaseHashes, strconv.FormatUint(h, 16))
				if len(samples) < 2 {
					samples = append(samples, cs)
				}
			}
			if len(rc.Viol) > 0 {
				break
			}
		}
		rc.Nontrivial = len(rc.CaseHashes) > 0
		rc.Sample = samples
		rc.EndReasons["scanner-ended"]++
	}
}

type c04TempErr struct{}

func (c04TempErr) Error() string   { return "resource temporarily unavailable (injected)" }
func (c04TempErr) Temporary() bool { return true }
func (c04TempErr) Timeout() bool   { return false }

var errC04Temporary error = c04TempErr{}

func c04PipelineWorld(rc *RunCtx) {
	sc := genPipeScenario(rc, true, 40)
	// the default matcher and the whole line as key: nothing but the scanner's bytes is looked at
	sc.MatcherKind, sc.Pattern, sc.Extract, sc.Ignores, sc.IgnoreCase = 0, "", "{0}", nil, false
	if !sc.Stdin && sc.Readers < 2 && len(sc.Inputs) > 1 {
		sc.Readers = 2 + rc.Tape.W(2)
	}
	rc.Sample = sc.describe()
	out := runPipe(rc, sc, simrt.Opts{MaxSteps: 400000, IdleLimit: time.Hour, FreeLimit: 24 * time.Hour})
	if !rc.StdEnd(out.Sim, "pipeline-termination") {
		return
	}
	ref := buildRef(sc)
	bad := 0
	for i := range out.Matches {
		m := &out.Matches[i]
		ls, ok := ref.Lines[m.Source]
		if !ok || m.LineNumber < 1 || int(m.LineNumber) > len(ls) {
			continue // source and numbering are C02's subject
		}
		if want := ls[m.LineNumber-1].Text; m.Line != want {
			bad++
			if bad <= 2 {
				rc.Violate("aliasing-in-pipeline", "%s line %d was handed out by its scanner, held in a batch and a match, and reads %q after the run; the input's line is %q (readers=%d, %d inputs)",
					m.Source, m.LineNumber, clip(m.Line, 100), clip(want, 100), sc.Readers, len(sc.Inputs))
			}
		}
	}
	rc.Nontrivial = pipeNontrivial(out, ref)
	rc.Cases = 1
	rc.EndReasons["pipeline-ended"]++
	rc.Logf("pipeline retained=%d bad=%d", len(out.Matches), bad)
}
