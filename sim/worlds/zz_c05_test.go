package main

// C05 world: real batchers + extractor + helpers.RunAggregationLoop with a monitoring proxy around
// a real MatchCounter and a render callback that does what cmd/histo.go does (real HistoWriter into a
// VirtualTerm, FWriteExtractorSummary, Batcher.StatusString) and records a snapshot.
//
// Leg A (ModeSched): the tape decides the interleaving, render-tick placement (fake clock), select
// ties and stage latencies; monitors: mutual exclusion, termination (+ fake-time bound), final
// render complete, monotone intermediates.
// Leg B (ModeFree, -race build): same world, goroutines run in parallel; the race detector decides.

import (
	"bytes"
	"fmt"
	"os"
	"regexp"
	"sort"
	"strconv"
	"sync"
	"sync/atomic"
	"time"

	"rare/cmd/helpers"
	"rare/pkg/aggregation"
	"rare/pkg/color"
	"rare/pkg/extractor"
	"rare/pkg/extractor/batchers"
	"rare/pkg/humanize"
	"rare/pkg/logger"
	"rare/pkg/multiterm"
	"rare/pkg/multiterm/termrenderers"
	"simrt"
)

type c05Shown struct {
	Key   string
	Count int64
}

type c05Snap struct {
	Ev      int64
	T       time.Duration
	Items   []c05Shown
	Matched uint64
	Read    uint64
	Groups  int
	Status  string
}

type c05World struct {
	rc       *RunCtx
	mu       sync.Mutex // protects Violate in ModeFree
	inSample atomic.Int32
	inRender atomic.Int32
	ev       atomic.Int64
	lastSamp atomic.Int64
	samples  atomic.Int64
	snaps    []c05Snap
	sim      *simrt.Sim
	latPm    int
	latMs    int
	rLatPm   int
	rLatMs   int
	free      bool
	sampleRng *simrt.LocalRand
	renderRng *simrt.LocalRand
}

func (w *c05World) violate(class, f string, a ...any) {
	w.mu.Lock()
	defer w.mu.Unlock()
	for _, v := range w.rc.Viol {
		if v.Class == w.rc.Prop+"/"+class {
			return
		}
	}
	w.rc.Violate(class, f, a...)
}

type c05Proxy struct {
	w     *c05World
	inner *aggregation.MatchCounter
}

func (p *c05Proxy) ParseErrors() uint64 { return p.inner.ParseErrors() }

func (p *c05Proxy) Sample(e string) {
	w := p.w
	if w.free {
		// leg B: no monitor state (atomics would order Sample and render for the race detector)
		if w.latPm > 0 && w.sampleRng.N(1000) < w.latPm {
			time.Sleep(time.Duration(1+w.sampleRng.N(w.latMs)) * time.Millisecond)
		}
		p.inner.Sample(e)
		return
	}
	if w.inRender.Load() != 0 {
		w.violate("sample-during-render", "Sample(%q) entered while a render was in progress (fake t=%v)", e, w.sim.Now())
	}
	if w.inSample.Add(1) != 1 {
		w.violate("sample-overlap", "two Sample calls overlapped (fake t=%v)", w.sim.Now())
	}
	simrt.Yield("world:in-sample") // inert while the loop's mutex is held; a real preemption point otherwise
	if w.latPm > 0 && w.rc.Tape.F(1000) < w.latPm {
		d := time.Duration(1+w.rc.Tape.F(w.latMs)) * time.Millisecond
		w.sim.AddInjectedLat(d)
		time.Sleep(d)
	}
	p.inner.Sample(e)
	w.samples.Add(1)
	w.lastSamp.Store(w.ev.Add(1))
	w.inSample.Add(-1)
}

var c05Summary = regexp.MustCompile(`^Matched: (\d+) / (\d+)`)

func init() {
	worlds["C05"] = func(rc *RunCtx) {
		if (rc.Index/2)%4 == 3 && rc.Mode != simrt.ModeFree {
			// one run in four: `rare histo|bars` in-process, final screen against the reference (zz_c05cli_test.go)
			c05CliWorld(rc)
			return
		}
		color.Enabled = false
		humanize.Enabled = false
		max := 40
		if rc.Tier == "thorough" && rc.Tape.WBool(1, 40) {
			max = 300
		}
		sc := genPipeScenario(rc, true, max)
		if sc.Extract == "{@}" {
			sc.Extract = "{0}" // {@} yields key\x00increment pairs: not count-style
		}
		for i := range sc.Inputs {
			// a NUL in a key is rare's key/increment separator: keep the aggregation count-style
			sc.Inputs[i].Data = bytes.ReplaceAll(sc.Inputs[i].Data, []byte{0}, []byte{1})
		}
		sc.writeInputs()
		t := rc.Tape
		w := &c05World{rc: rc}
		if t.FBool(1, 3) {
			w.latPm = []int{30, 200, 700}[t.F(3)]
			w.latMs = []int{4, 60, 250}[t.F(3)]
		}
		if t.FBool(1, 3) {
			w.rLatPm = []int{100, 500, 1000}[t.F(3)]
			w.rLatMs = []int{4, 60, 250}[t.F(3)]
		}
		opts := simrt.Opts{MaxSteps: 600000, IdleLimit: time.Hour, FreeLimit: 24 * time.Hour}
		if t.FBool(1, 3) {
			opts.YieldLatPermille = []int{5, 40, 200}[t.F(3)]
			opts.YieldLatMaxMs = []int{3, 40, 150}[t.F(3)]
		}
		opts.Knobs = sc.knobs()
		s := rc.NewSim(opts)
		w.sim = s
		if rc.Mode == simrt.ModeFree {
			w.free = true
			w.sampleRng = simrt.NewLocalRand(t)
			w.renderRng = simrt.NewLocalRand(t)
		}
		sc.installPlans(s)
		desc := sc.describe()
		desc["sample_latency"] = fmt.Sprintf("%d/1000 up to %dms", w.latPm, w.latMs)
		desc["render_latency"] = fmt.Sprintf("%d/1000 up to %dms", w.rLatPm, w.rLatMs)
		desc["yield_latency"] = fmt.Sprintf("%d/1000 up to %dms", opts.YieldLatPermille, opts.YieldLatMaxMs)
		rc.Sample = desc

		var ext *extractor.Extractor
		var bat *batchers.Batcher
		var setupErr error
		counter := aggregation.NewCounter()
		proxy := &c05Proxy{w: w, inner: counter}
		const showAll = 1 << 20
		s.Run(rc.T, func() {
			mf, err := sc.matcherFactory()
			if err != nil {
				setupErr = err
				return
			}
			var ign extractor.IgnoreSet
			if len(sc.Ignores) > 0 {
				if ign, err = extractor.NewIgnoreExpressions(sc.Ignores...); err != nil {
					setupErr = err
					return
				}
			}
			bat = sc.buildBatcher(s)
			ext, err = extractor.New(bat.BatchChan(), &extractor.Config{Matcher: mf, Extract: sc.Extract, Workers: sc.Workers, Ignore: ign})
			if err != nil {
				setupErr = err
				return
			}
			vt := multiterm.NewVirtualTerm()
			writer := termrenderers.NewHistogram(vt, 64)
			sorter := helpers.BuildSorterOrFail("value")
			showBar, showPct := t.WBool(1, 2), t.WBool(1, 2)
			writer.ShowBar, writer.ShowPercentage = showBar, showPct
			writeOutput := func() {
				if w.free {
					if w.rLatPm > 0 && w.renderRng.N(1000) < w.rLatPm {
						time.Sleep(time.Duration(1+w.renderRng.N(w.rLatMs)) * time.Millisecond)
					}
					items := counter.ItemsSortedBy(showAll, sorter)
					writer.UpdateTotal(counter.Total())
					for line, it := range items {
						if line < 64 {
							writer.WriteForLine(line, it.Name, it.Item.Count())
						}
					}
					writer.WriteFooter(0, helpers.FWriteExtractorSummary(ext, counter.ParseErrors(), fmt.Sprintf("(Groups: %d)", counter.GroupCount())))
					writer.WriteFooter(1, bat.StatusString())
					w.snaps = append(w.snaps, c05Snap{})
					return
				}
				if w.inSample.Load() != 0 {
					w.violate("render-during-sample", "a render started while Sample was in progress (fake t=%v)", s.Now())
				}
				if w.inRender.Add(1) != 1 {
					w.violate("render-overlap", "two renders overlapped (fake t=%v)", s.Now())
				}
				simrt.Yield("world:in-render")
				if w.rLatPm > 0 && t.F(1000) < w.rLatPm {
					d := time.Duration(1+t.F(w.rLatMs)) * time.Millisecond
					s.AddInjectedLat(d)
					time.Sleep(d)
				}
				// what cmd/histo.go's callback does
				items := counter.ItemsSortedBy(showAll, sorter)
				writer.UpdateTotal(counter.Total())
				snap := c05Snap{T: s.Now(), Groups: counter.GroupCount()}
				for line, it := range items {
					if line < 64 {
						writer.WriteForLine(line, it.Name, it.Item.Count())
					}
					snap.Items = append(snap.Items, c05Shown{it.Name, it.Item.Count()})
				}
				simrt.Yield("world:mid-render")
				summary := helpers.FWriteExtractorSummary(ext, counter.ParseErrors(), fmt.Sprintf("(Groups: %d)", counter.GroupCount()))
				writer.WriteFooter(0, summary)
				snap.Status = bat.StatusString()
				writer.WriteFooter(1, snap.Status)
				if m := c05Summary.FindStringSubmatch(summary); m != nil {
					snap.Matched, _ = strconv.ParseUint(m[1], 10, 64)
					snap.Read, _ = strconv.ParseUint(m[2], 10, 64)
				} else {
					w.violate("HARNESS-summary", "cannot parse summary %q", summary)
				}
				snap.Ev = w.ev.Add(1)
				w.snaps = append(w.snaps, snap)
				w.inRender.Add(-1)
			}
			helpers.RunAggregationLoop(ext, proxy, writeOutput)
			simrt.Yield("world:loop-returned")
		})
		// flush rare's deferred log buffer without polluting the worker's stderr
		if devnull, err := os.OpenFile(os.DevNull, os.O_WRONLY, 0); err == nil {
			old := os.Stderr
			os.Stderr = devnull
			logger.ImmediateLogs()
			os.Stderr = old
			devnull.Close()
		}
		if setupErr != nil {
			panic(fmt.Sprintf("scenario does not compile: %v (%+v)", setupErr, desc))
		}
		rc.Absorb(s)
		rc.Probes["renders"] += int64(len(w.snaps))
		if len(w.snaps) > 1 {
			rc.Probes["intermediate-renders"] += int64(len(w.snaps) - 1)
		}
		if !rc.StdEnd(s, "termination") {
			return
		}
		if rc.Mode == simrt.ModeFree {
			// leg B decides only "race or no race" (+ the monitors above); the reference comparison is leg A's
			rc.Nontrivial = true
			return
		}
		// termination bound in simulated time
		if bound := s.InjectedLat + time.Second; s.SimElapsed > bound {
			rc.Violate("termination-late", "the run took %v of simulated time although all injected latencies sum to %v: something waited on a timer it should not depend on", s.SimElapsed, s.InjectedLat)
		}
		ref := buildRef(sc)
		want := map[string]int64{}
		for _, ls := range ref.Lines {
			for _, l := range ls {
				if l.Class == 1 {
					want[l.Key]++
				}
			}
		}
		if len(w.snaps) == 0 {
			rc.Violate("no-final-render", "the aggregation loop returned without ever rendering")
			return
		}
		last := w.snaps[len(w.snaps)-1]
		if last.Ev < w.lastSamp.Load() {
			rc.Violate("final-render-early", "the last render (event %d) happened before the last Sample (event %d): final output does not reflect all matches", last.Ev, w.lastSamp.Load())
		}
		got := map[string]int64{}
		for _, it := range last.Items {
			got[it.Key] += it.Count
		}
		var diffs []string
		for k, n := range want {
			if got[k] != n {
				diffs = append(diffs, fmt.Sprintf("%q: final render shows %d, reference %d", k, got[k], n))
			}
		}
		for k, n := range got {
			if _, ok := want[k]; !ok {
				diffs = append(diffs, fmt.Sprintf("%q: final render shows %d, reference has no such key", k, n))
			}
		}
		if len(diffs) > 0 {
			sort.Strings(diffs)
			if len(diffs) > 6 {
				diffs = append(diffs[:6], fmt.Sprintf("… %d more", len(diffs)-6))
			}
			rc.Violate("final-render-incomplete", "final render differs from the sequential reference (%d samples seen, %d renders):\n%s", w.samples.Load(), len(w.snaps), joinLines(diffs))
		}
		if last.Matched != ref.Matched || last.Read != ref.Read {
			rc.Violate("final-summary", "final summary shows Matched: %d / %d, reference %d / %d", last.Matched, last.Read, ref.Matched, ref.Read)
		}
		// monotone intermediates (count-style: every increment is 1)
		for i, sn := range w.snaps {
			var sum int64
			for _, it := range sn.Items {
				sum += it.Count
				if it.Count > want[it.Key] {
					rc.Violate("snapshot-exceeds-final", "render %d (fake t=%v) shows %q = %d, final count is %d", i, sn.T, it.Key, it.Count, want[it.Key])
					break
				}
			}
			if uint64(sum) > sn.Matched {
				rc.Violate("snapshot-matched-below-sum", "render %d (fake t=%v) shows counts summing to %d but Matched: %d", i, sn.T, sum, sn.Matched)
			}
			if sn.Matched > sn.Read {
				rc.Violate("snapshot-matched-above-read", "render %d shows Matched %d > Read %d", i, sn.Matched, sn.Read)
			}
			if i > 0 && (sn.Ev <= w.snaps[i-1].Ev) {
				rc.Violate("HARNESS-snapshot-order", "snapshot events out of order")
			}
		}
		rc.Nontrivial = s.MultiChoice > 0 && ref.Read > 0
		rc.Logf("renders=%d samples=%d matched=%d read=%d groups=%d elapsed=%d", len(w.snaps), w.samples.Load(), last.Matched, last.Read, last.Groups, int64(s.SimElapsed))
		for _, sn := range w.snaps {
			rc.Logf("snap ev=%d t=%d matched=%d items=%d status=%q", sn.Ev, int64(sn.T), sn.Matched, len(sn.Items), maskRate(sn.Status))
		}
	}
}

var rateToken = regexp.MustCompile(`\([^()]*/s\)`)

func maskRate(s string) string { return rateToken.ReplaceAllString(s, "(RATE)") }

func joinLines(xs []string) string {
	out := ""
	for i, x := range xs {
		if i > 0 {
			out += "\n"
		}
		out += x
	}
	return out
}
