package main

// CLI-level variants of C01 and C02: `rare filter` in-process under the simulated scheduler.
// C02: default output (no -e) with colour codes removed is byte-identical to the matched line;
//      `-l` prefixes parse to the true (source, line number); one reader + one worker emit in input order.
// C01: the stderr summary `Matched: M / R (Ignored: I)` equals the reference counts and the emitted
//      keys (with -e) equal the sequential evaluation as a multiset.

import (
	"bytes"
	"fmt"
	"regexp"
	"sort"
	"strconv"
	"strings"
	"time"

	"simrt"
)

var sgr = regexp.MustCompile("\x1b\\[[0-9;]*m")
var filterPrefix = regexp.MustCompile(`^(\S+) (\d+): `)
var filterSummary = regexp.MustCompile(`(?m)^Matched: ([0-9,]+) / ([0-9,]+)(?: \(Ignored: ([0-9,]+)\))?`)

var aggFooter = regexp.MustCompile(`(?m)^Matched: ([0-9,]+) / ([0-9,]+)(?: \(Groups: [0-9,]+\))?(?: \(Ignored: ([0-9,]+)\))?`)

func cliFilterWorld(rc *RunCtx, prop string) {
	t := rc.Tape
	sc := genPipeScenario(rc, true, 40)
	colour := prop == "C02" // default output path with highlighting
	withL := colour && t.WBool(1, 2)
	if colour {
		sc.Extract = "{0}"
		// a line feed inside a line cannot occur; NUL/ESC free corpus keeps the SGR stripper unambiguous
		for i := range sc.Inputs {
			sc.Inputs[i].Data = bytes.ReplaceAll(sc.Inputs[i].Data, []byte{0x1b}, []byte{'e'})
		}
	}
	if strings.ContainsAny(sc.Extract, ",") {
		sc.Extract = "{0}"
	}
	// C01, one run in three: an aggregating command instead of filter. Its footer `Matched: M / R (Ignored: I)` is drawn by the
	// render callback - by the last render, which must come after every line was classified, also when the lines after the last
	// match are all unmatched or ignored and a periodic render has already shown everything that was sampled
	agg := prop == "C01" && t.WBool(1, 3)
	if agg {
		if sc.Extract == "{@}" {
			sc.Extract = "{0}" // an array-valued key is NUL-separated: the histogram reads a second part as the increment
		}
		for i := range sc.Inputs {
			// (a NUL inside a key separates key and increment: not this world's subject)
			sc.Inputs[i].Data = bytes.ReplaceAll(sc.Inputs[i].Data, []byte{0}, []byte{'0'})
		}
	}
	sc.writeInputs()
	args := []string{"--nocolor"}
	if colour {
		args = []string{"--color"}
	}
	if agg {
		args = append(args, "--noformat", "histo", "-n", "100000")
	} else {
		args = append(args, "filter")
	}
	switch sc.MatcherKind {
	case 1:
		args = append(args, "-m", sc.Pattern)
	case 2:
		args = append(args, "-d", sc.Pattern)
	}
	if !colour {
		args = append(args, "-e", sc.Extract)
	}
	for _, ig := range sc.Ignores {
		args = append(args, "-i", ig)
	}
	if withL {
		args = append(args, "-l")
	}
	if sc.IgnoreCase {
		args = append(args, "-I")
	}
	if sc.Gunzip {
		args = append(args, "-z")
	}
	args = append(args, "--batch", strconv.Itoa(sc.Batch), "--workers", strconv.Itoa(sc.Workers), "--batch-buffer", strconv.Itoa(sc.Buffer))
	s := rc.NewSim(simrt.Opts{MaxSteps: 400000, IdleLimit: time.Hour, Knobs: sc.knobs()})
	sc.installPlans(s)
	if sc.Stdin {
		in := sc.Inputs[0]
		s.StdinR = &simrt.ScriptReader{Name: in.Name, Data: in.Data, Plan: in.Plan}
		if t.WBool(1, 2) {
			args = append(args, "-")
		}
	} else {
		args = append(args, "--readers", strconv.Itoa(sc.Readers))
		for _, in := range sc.Inputs {
			args = append(args, in.Name)
		}
	}
	desc := sc.describe()
	desc["cli"] = args
	rc.Sample = desc
	res := runCLI(rc, s, args)
	rc.Absorb(s)
	if !rc.StdEnd(s, "termination") {
		return
	}
	ref := buildRef(sc)
	rc.Nontrivial = s.MultiChoice > 0 && ref.Read > 0
	ctx := fmt.Sprintf("%v", desc)
	// ---- summary (C01) ----
	m := filterSummary.FindSubmatch(sgr.ReplaceAll(res.Stderr, nil))
	if agg {
		// the footer of the final screen: `Matched: M / R (Groups: G) (Ignored: I)`
		m = aggFooter.FindSubmatch(res.Stdout)
	}
	if m == nil {
		rc.Violate("cli-summary-missing", "no summary on stderr: %q\n%s", clip(string(res.Stderr), 300), ctx)
		return
	}
	num := func(b []byte) uint64 {
		v, _ := strconv.ParseUint(strings.ReplaceAll(string(b), ",", ""), 10, 64)
		return v
	}
	if num(m[1]) != ref.Matched || num(m[2]) != ref.Read || num(m[3]) != ref.Ignored {
		rc.Violate("cli-summary", "stderr says Matched: %d / %d (Ignored: %d); the sequential reference says %d / %d (Ignored: %d)\n%s", num(m[1]), num(m[2]), num(m[3]), ref.Matched, ref.Read, ref.Ignored, ctx)
	}
	// exit status
	wantExit := 0
	for _, in := range sc.Inputs {
		if in.failsRead() {
			wantExit = 2
		}
	}
	if wantExit == 0 && ref.Matched == 0 {
		wantExit = 1
	}
	if res.Exit != wantExit {
		rc.Violate("cli-exit", "exit status %d, expected %d\nstderr: %q\n%s", res.Exit, wantExit, clip(string(res.Stderr), 300), ctx)
	}
	if agg {
		rc.Probes["cli-aggregator-footer-runs"]++
		return
	}
	// ---- stdout ----
	out := bytes.Split(res.Stdout, []byte("\n"))
	if n := len(out); n > 0 && len(out[n-1]) == 0 {
		out = out[:n-1]
	}
	type rec struct {
		src  string
		no   uint64
		text string
	}
	var want []rec
	for _, name := range ref.Order {
		for _, l := range ref.Lines[name] {
			if l.Class == 1 {
				txt := l.Text
				if !colour {
					txt = l.Key
				}
				want = append(want, rec{l.Src, l.No, txt})
			}
		}
	}
	var got []rec
	for _, raw := range out {
		line := string(raw)
		if colour {
			line = sgr.ReplaceAllString(line, "")
		}
		r := rec{}
		if withL {
			pm := filterPrefix.FindStringSubmatch(line)
			if pm == nil {
				rc.Violate("cli-prefix", "`filter -l` line %q has no `source line: ` prefix\n%s", clip(line, 120), ctx)
				return
			}
			r.src = pm[1]
			r.no, _ = strconv.ParseUint(pm[2], 10, 64)
			line = line[len(pm[0]):]
		}
		r.text = line
		got = append(got, r)
	}
	key := func(r rec) string {
		if withL {
			return fmt.Sprintf("%s\x00%d\x00%s", r.src, r.no, r.text)
		}
		return r.text
	}
	ordered := sc.Workers == 1 && (sc.Readers == 1 || len(sc.Inputs) == 1)
	class := "cli-keys"
	if colour {
		class = "cli-line-text"
	}
	if ordered {
		for i := 0; i < len(want) || i < len(got); i++ {
			var w, g string
			if i < len(want) {
				w = key(want[i])
			}
			if i < len(got) {
				g = key(got[i])
			}
			if w != g {
				rc.Violate(class+"-ordered", "one reader, one worker: output line %d is %q, expected %q (%d lines printed, %d expected)\n%s", i+1, clip(g, 160), clip(w, 160), len(got), len(want), ctx)
				break
			}
		}
	} else {
		cnt := map[string]int{}
		for _, w := range want {
			cnt[key(w)]++
		}
		for _, g := range got {
			cnt[key(g)]--
		}
		var diffs []string
		for k, n := range cnt {
			if n != 0 {
				diffs = append(diffs, fmt.Sprintf("%q: expected %+d more", k, n))
			}
		}
		if len(diffs) > 0 {
			sort.Strings(diffs)
			if len(diffs) > 6 {
				diffs = diffs[:6]
			}
			rc.Violate(class, "printed lines differ from the reference as a multiset:\n%s\n%s", strings.Join(diffs, "\n"), ctx)
		}
	}
	rc.Probes["cli-filter-runs"]++
	rc.Logf("cli exit=%d printed=%d", res.Exit, len(got))
	for _, g := range got {
		rc.Logf("%q", key(g))
	}
}
