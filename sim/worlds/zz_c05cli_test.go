package main

// C05 at the command line: "the final render happens after the last match was sampled, so final output reflects
// all matches" - checked on what the user sees. `rare histo|bars` runs in-process under the simulated scheduler over
// lines that trickle in (read latencies in fake time, small batches, chunked reads), so that several 100ms renders
// happen while the data is incomplete; the numbers on the final screen must be the reference counts of every key,
// and the footer must show the reference totals. A renderer that skips, caches or aliases rows between renders
// shows here, whatever the aggregator holds.

import (
	"fmt"
	"sort"
	"strconv"
	"strings"

	"simrt"
)

func c05CliWorld(rc *RunCtx) {
	t := rc.Tape
	sc := &c13Scenario{Sort: []string{"text", "value", "numeric"}[t.W(3)]}
	sc.Cmd = []string{"histo", "bars"}[t.W(2)]
	pool := append(append([]string{}, c13Pools["text"]...), "10", "9", "k1", "k2", "x")
	n := t.WRange(2, 7)
	seen := map[string]bool{}
	for tries := 0; len(sc.Keys) < n && tries < 8*n; tries++ {
		k := pool[t.W(len(pool))]
		if !seen[k] {
			seen[k] = true
			sc.Keys = append(sc.Keys, k)
			sc.Counts = append(sc.Counts, 1+t.W(6))
		}
	}
	nLines := len(sc.lines())
	// arrival order: shuffled, so that rows keep growing after they were first drawn
	shuffle := make([]int, nLines)
	for i := range shuffle {
		shuffle[i] = i
	}
	for i := nLines - 1; i > 0; i-- {
		j := t.W(i + 1)
		shuffle[i], shuffle[j] = shuffle[j], shuffle[i]
	}
	cs := sc.scenario(sc.Sort, t, shuffle)
	// signed increments (histogram only, one run in three): `key<TAB>n` lines counted with -e {1} -e {2}; after the shuffled
	// body comes a tail of pairs (a +d)(b -d) on keys that are already on the screen. Such a tail changes per-key counts
	// but neither the total nor the number of groups nor the set of rows: a render that decides from such aggregate
	// numbers whether anything happened must still show the final counts.
	signed := sc.Cmd == "histo" && len(sc.Keys) >= 2 && t.WBool(1, 3)
	final := map[string]int{}
	if signed {
		var ls []c3Line
		for _, l := range cs.Lines {
			c := 1 + t.W(4)
			final[l.Raw] += c
			ls = append(ls, c3Line{Raw: fmt.Sprintf("%s\t%d", l.Raw, c)})
		}
		for p := t.WRange(1, 3); p > 0; p-- {
			a, b := sc.Keys[t.W(len(sc.Keys))], sc.Keys[t.W(len(sc.Keys))]
			if a == b || final[b] < 2 {
				continue
			}
			d := 1 + t.W(final[b]-1) // every key keeps a positive count (what the renderers do with zero or negative rows is C14's subject)
			final[a] += d
			final[b] -= d
			ls = append(ls, c3Line{Raw: fmt.Sprintf("%s\t%d", a, d)}, c3Line{Raw: fmt.Sprintf("%s\t-%d", b, d)})
		}
		nLines = len(ls)
		cs = &c3Scenario{Kind: "c13-histo", Lines: ls, Regex: `^([^\t]*)\t(-?\d+)$`, Tpls: []c3Tpl{{{Grp: 1}}, {{Grp: 2}}},
			Flags: []string{"--nocolor", "--noformat", "--notrim", "histo", "-n", "1000", "--sort", sc.Sort}}
		rc.Probes["cli-final-screen-signed"]++
	}
	v := c3GenVariant(t, &c3Scenario{Lines: make([]c3Line, nLines)}, false)
	if signed {
		// one input, so that the tail really arrives last
		all := make([]int, nLines)
		for i := range all {
			all[i] = i
		}
		v.Files, v.Order, v.Readers = [][]int{all}, []int{0}, 1
	}
	v.Gz = make([]bool, len(v.Files))
	// lines trickle in: latency on most reads, small batches, small scanner buffer
	v.LatPm = []int{600, 1000}[t.F(2)]
	v.LatMs = []int{60, 150, 400}[t.F(3)]
	v.Batch = []int{1, 1, 2}[t.W(3)]
	v.Chunk = true
	v.ScanBuf = []int{3, 8, 17}[t.F(3)]
	desc := map[string]any{"world": "cli-final-screen", "cmd": sc.Cmd, "sort": sc.Sort, "keys": sc.Keys, "counts": sc.Counts, "variant": v.String()}
	if signed {
		var raw []string
		for _, l := range cs.Lines {
			raw = append(raw, l.Raw)
		}
		desc["signed_increment_lines"] = raw
		delete(desc, "counts")
	}
	rc.Sample = desc
	o := c3RunVariant(rc, cs, v)
	if !rc.StdEnd(o.Sim, "termination") {
		rc.Viol[len(rc.Viol)-1].Msg += fmt.Sprintf("\nscenario: %v", desc)
		return
	}
	if o.Res.Exit != 0 {
		rc.Violate("HARNESS-exit", "exit %d for %v: %q", o.Res.Exit, desc, clip(string(o.Res.Stderr), 300))
		return
	}
	want := map[string]int{}
	total := 0
	for i, k := range sc.Keys {
		want[k] = sc.Counts[i]
		total += sc.Counts[i]
	}
	if signed {
		want, total = final, nLines
	}
	got := map[string]int{}
	var bad, unread []string
	for _, l := range strings.Split(o.Stdout, "\n") {
		if strings.TrimSpace(l) == "" {
			continue
		}
		if strings.HasPrefix(l, "Matched: ") {
			m := filterSummary.FindStringSubmatch(l)
			if m == nil {
				bad = append(bad, fmt.Sprintf("cannot read the summary line %q", l))
				continue
			}
			mm, _ := strconv.Atoi(strings.ReplaceAll(m[1], ",", ""))
			rr, _ := strconv.Atoi(strings.ReplaceAll(m[2], ",", ""))
			if mm != total || rr != total {
				bad = append(bad, fmt.Sprintf("the footer says %q, the input has %d matching lines of %d", l, total, total))
			}
			continue
		}
		re := c13HistoLine
		if sc.Cmd == "bars" {
			re = c13BarsLine
		}
		m := re.FindStringSubmatch(l)
		if m == nil {
			unread = append(unread, l)
			continue
		}
		c, _ := strconv.Atoi(m[2])
		got[m[1]] += c
	}
	if len(unread) > 0 && len(got) == 0 {
		// no row of the screen can be read: the output format is not what this world knows (inconclusive, never a violation)
		rc.Violate("HARNESS-parse", "cannot parse the %s line %q\n%q", sc.Cmd, unread[0], o.Stdout)
		return
	}
	for _, l := range unread {
		// other rows read fine: this one is not a row of the graph (a key torn apart, a count missing)
		bad = append(bad, fmt.Sprintf("the line %q is not a row `key  count`", l))
	}
	for k, c := range want {
		if got[k] != c {
			bad = append(bad, fmt.Sprintf("%q is shown with %d, the input has %d", k, got[k], c))
		}
	}
	for k, c := range got {
		if _, ok := want[k]; !ok {
			bad = append(bad, fmt.Sprintf("%q is shown with %d, the input has no such key", k, c))
		}
	}
	if len(bad) > 0 {
		sort.Strings(bad)
		rc.Violate("final-screen-stale", "`rare %s`: the final screen does not reflect all matches (%v simulated, lines arriving over several render ticks):\n%s\nscreen:\n%s\nscenario: %v",
			sc.Cmd, o.Sim.SimElapsed, strings.Join(bad, "\n"), clip(o.Stdout, 600), desc)
	}
	rc.Probes["cli-final-screen"]++
	if o.Sim.SimElapsed > 250_000_000 {
		rc.Probes["cli-final-screen-several-ticks"]++
	}
	rc.Nontrivial = rc.Multi > 0
	rc.Logf("cli-final-screen %s %s out=%q", sc.Cmd, sc.Sort, o.Stdout)
}

var _ = simrt.ModeFree
