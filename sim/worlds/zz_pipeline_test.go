package main

// The API-level pipeline world shared by C01, C02 (and reused by C05 and C10): real batchers +
// real extractor under the simulated scheduler, a consumer that retains every match until the
// run is over, and a sequential reference that is independent of the pipeline.

import (
	"bytes"
	"fmt"
	"os"
	"regexp"
	"sort"
	"strings"
	"time"

	"rare/pkg/expressions"
	"rare/pkg/expressions/funclib"
	"rare/pkg/expressions/stdlib"
	"rare/pkg/extractor"
	"rare/pkg/extractor/batchers"
	"rare/pkg/matchers"
	"rare/pkg/matchers/dissect"
	"rare/pkg/matchers/fastregex"
	"simrt"
)

type pipeInput struct {
	Name string
	Data []byte // the plain content (what the lines are); a gzip input's file holds the compressed form
	Plan *simrt.ReadPlan
	Gz   bool
	GzAt []int // member boundaries of a multi-member gzip file (nil: one member)
}

type pipeScenario struct {
	Stdin       bool
	Inputs      []pipeInput
	MatcherKind int // 0 none, 1 regex, 2 dissect
	Pattern     string
	Extract     string
	Ignores     []string
	Batch       int
	Workers     int
	Readers     int
	Buffer      int
	ConsLatPm   int // per-mille chance the consumer sleeps (fake time) before taking the next batch
	ConsLatMs   int
	Gunzip      bool // -z: gzip inputs are decompressed, plain inputs are read from their first byte
	IgnoreCase  bool // -I: `(?i)` for regex; dissect literals compared case-insensitively
	ScanBuf     int // override of batchers.ReadAheadBufferSize for this run (0: the tree's constant)
	PoolDiv     int // divisor applied to the matchers' index-pool size (0/1: the tree's size, 1024 matches per block)
}

func (sc *pipeScenario) describe() map[string]any {
	var ins []string
	total := 0
	for _, in := range sc.Inputs {
		n := len(refSplit(in.Data))
		total += n
		f := ""
		if in.Plan != nil && in.Plan.ErrAt >= 0 {
			f = fmt.Sprintf(" read-error@%d", in.Plan.ErrAt)
		}
		if in.Gz {
			f += fmt.Sprintf(" gzip(%d members)", len(in.GzAt)+1)
		}
		ins = append(ins, fmt.Sprintf("%s: %d bytes, %d lines%s", in.Name, len(in.Data), n, f))
	}
	return map[string]any{"stdin": sc.Stdin, "inputs": ins, "lines": total, "matcher": []string{"none", "regex", "dissect"}[sc.MatcherKind], "pattern": sc.Pattern,
		"extract": sc.Extract, "ignore": sc.Ignores, "batch": sc.Batch, "workers": sc.Workers, "readers": sc.Readers, "buffer": sc.Buffer, "scanner_buffer": sc.ScanBuf, "index_pool_divisor": sc.PoolDiv, "gunzip": sc.Gunzip, "ignore_case": sc.IgnoreCase}
}

var (
	genVerbs = []string{"GET", "POST", "PUT", "DEL"}
	genCodes = []string{"200", "404", "500", "7", "0042", "301"}
	genPaths = []string{"/a", "/b/c", "/idx?q=1", "/", "/a"}

	genRegex = []string{
		`(\w+) (\d+)`,
		`^(?P<verb>[A-Z]+) (?P<code>\d+)(?: (?P<path>\S+))?`,
		`(\d+)`,
		`(GET)|(POST)`,
		`^$`,
		`(?:x)*`,
		`.*`,
		`(\w+)( \d+)?( /\S*)?`,
		// nothing but literal text inside groups (what a regex library calls a complete literal prefix)
		`(GET) (200)`, `(?P<verb>POST) (?P<code>404)`, `^heartbeat$`, `(DEL)`,
	}
	genDissect = []string{
		`%{verb} %{code} %{path}`,
		`%{a} %{b}`,
		`GET %{code}`,
		`%{} %{c}`,
		`%{?v} %{c} %{p}`,
		`%{all}`,
	}
	genExtract = []string{
		`{0}`, `{1}`, `{2}`, `{1} {2}`, `{src}:{line}`, `{@}`, `{3}`, `{5}`,
		`{prefix {0} GET}`, `{bucket {2} 100}`, `{if {eq {1} GET} g {1}}`, `{upper {1}}`, `{src}:{line}:{0}`, `{len {0}}`,
		// stages that take objects from the process-wide pools
		`{@join {@map {@split {0} " "} "{upper {0}}"} -}`, `{@reduce {@split {0} " "} "{sumi {len {0}} {len {1}}}"}`,
		// math stages: a pooled per-call-site context that counts conversion errors ({2} is a number on some lines only)
		`{! [2] * 2 + 1}`, `{! [2] / 100} {! [1] + 1}`,
	}
	genExtractNamedRe = []string{`{verb}`, `{code}-{path}`, `{verb} {2}`}
	genExtractNamedDs = map[string][]string{
		`%{verb} %{code} %{path}`: {`{verb}`, `{code}-{path}`},
		`%{a} %{b}`:               {`{a}`, `{b}{a}`},
		`GET %{code}`:             {`{code}`},
		`%{} %{c}`:                {`{c}`},
		`%{?v} %{c} %{p}`:         {`{c}:{p}`},
		`%{all}`:                  {`{all}`},
	}
	genIgnore = []string{`{eq {1} GET}`, `{lt {len {0}} 8}`, `{not {2}}`, `{like {0} x}`, `{eq {2} 404}`}
)

func genLine(t *simrt.Tape) string {
	pick := func(xs []string) string { return xs[t.W(len(xs))] }
	switch t.W(16) {
	case 14:
		// characters whose lower-case form has another byte length, and bytes that are not UTF-8
		return []string{"\u0130stanbul ", "\u212a ", "\u023a\u023e ", "\xe9\xc9 ", "\xff\xfe"}[t.W(5)] + pick(genVerbs) + " " + pick(genCodes) + " " + pick(genPaths)
	case 15:
		return strings.ToLower(pick(genVerbs)) + " " + pick(genCodes) + " \u212a" + pick(genPaths)
	case 0, 1, 2, 3, 4, 5:
		return pick(genVerbs) + " " + pick(genCodes) + " " + pick(genPaths)
	case 6:
		return "heartbeat"
	case 7:
		return ""
	case 8:
		return "  \t "
	case 9:
		return "\x00\xff" + pick(genVerbs) + " 12"
	case 10:
		return pick(genVerbs) + " " + pick(genCodes) + " " + strings.Repeat("x", t.WRange(60, 300))
	case 11:
		return pick(genCodes) + " " + pick(genCodes)
	case 12:
		return "é ü " + pick(genVerbs) + " 9"
	default:
		return pick(genVerbs) + "\r " + pick(genCodes)
	}
}

var datedVerb = regexp.MustCompile(`(?m)^[A-Z]+ `)

func genCorpus(t *simrt.Tape, maxLines int) []byte {
	n := t.WRange(0, maxLines)
	var b bytes.Buffer
	if t.WBool(1, 14) {
		// an input of one to three bytes (shorter than anything a content sniffer wants to look at)
		return []byte([]string{"A", "\n", "a\n", "ab", "\r\n", "x\ny", "\x1f", "\x1f\x8b"}[t.W(8)])
	}
	if n > 0 && t.WBool(1, 16) {
		// a plain file that begins with the gzip magic bytes (under -z it must still be read from its first byte)
		b.WriteString("\x1f\x8b\x07 ") // (compression method 7 is not a gzip header: gzip.ErrHeader, read as plain)
	}
	for i := 0; i < n; i++ {
		b.WriteString(genLine(t))
		last := i == n-1
		switch {
		case last && t.WBool(1, 3):
			// no trailing newline
		case t.WBool(1, 6):
			b.WriteString("\r\n")
		default:
			b.WriteString("\n")
		}
	}
	return b.Bytes()
}

// genPipeScenario draws a scenario. legalPlan: chunking and latency are legal reader behaviour and
// are drawn in both sub-batches; read/open errors only when rc.Faults.
func genPipeScenario(rc *RunCtx, allowStdin bool, maxLinesPerInput int) *pipeScenario {
	t := rc.Tape
	sc := &pipeScenario{}
	sc.Stdin = allowStdin && t.WBool(1, 4)
	nIn := 1
	if !sc.Stdin {
		nIn = t.WRange(1, 4)
	}
	oddNames := t.WBool(1, 6)
	for i := 0; i < nIn; i++ {
		name := fmt.Sprintf("f%d.log", i)
		if oddNames {
			// names with characters that mean something to printf, to a shell or to a glob: a name is data wherever it is shown
			name = []string{"f0%d.log", "100%s.log", "f2%.log", "f3%!v{0}.log"}[i]
		}
		if sc.Stdin {
			name = "<stdin>"
		}
		sc.Inputs = append(sc.Inputs, pipeInput{Name: name, Data: genCorpus(t, maxLinesPerInput)})
	}
	sc.MatcherKind = t.W(3)
	switch sc.MatcherKind {
	case 1:
		sc.Pattern = genRegex[t.W(len(genRegex))]
	case 2:
		sc.Pattern = genDissect[t.W(len(genDissect))]
	}
	ex := append([]string{}, genExtract...)
	if sc.MatcherKind == 1 && strings.Contains(sc.Pattern, "?P<verb>") {
		ex = append(ex, genExtractNamedRe...)
	}
	if sc.MatcherKind == 2 {
		ex = append(ex, genExtractNamedDs[sc.Pattern]...)
	}
	sc.Extract = ex[t.W(len(ex))]
	switch sc.MatcherKind {
	case 1:
		sc.IgnoreCase = t.WBool(1, 4)
	case 2:
		// dissect -I with literals that contain no letters: the result must equal the case-sensitive one on any bytes
		sc.IgnoreCase = sc.Pattern != `GET %{code}` && t.WBool(1, 3)
	}
	if !sc.Stdin && t.WBool(1, 4) {
		sc.Gunzip = true
		for i := range sc.Inputs {
			if t.WBool(1, 2) {
				sc.Inputs[i].Gz = true
				sc.Inputs[i].Name += ".gz"
				sc.Inputs[i].GzAt = gzCuts(t, len(sc.Inputs[i].Data))
			}
		}
	}
	for n := t.W(3); n > 0; n-- {
		sc.Ignores = append(sc.Ignores, genIgnore[t.W(len(genIgnore))])
	}
	if t.WBool(1, 8) {
		// a dated log: most first tokens become one of a few dates (lines come in bursts that share a timestamp), and the
		// ignore and extract expressions may parse them - whatever a time stage remembers between lines is shared by every
		// goroutine that evaluates the compiled expression
		dates := []string{"2021-03-04", "2021-03-05", "2020-12-31", "2021-03-04"}[:2+t.W(3)]
		for i := range sc.Inputs {
			sc.Inputs[i].Data = datedVerb.ReplaceAllFunc(sc.Inputs[i].Data, func(m []byte) []byte {
				if t.W(4) == 0 {
					return m
				}
				return []byte(dates[t.W(len(dates))] + " ")
			})
		}
		if t.WBool(1, 2) {
			sc.Ignores = append(sc.Ignores, []string{`{lt {time {1} 2006-01-02} 1614816000}`, `{eq {buckettime {1} month 2006-01-02} 2020-12}`}[t.W(2)])
		}
		if t.WBool(1, 2) {
			sc.Extract = []string{`{time {1} 2006-01-02}`, `{buckettime {1} day 2006-01-02} {2}`, `{timeformat {time {1} 2006-01-02} 01/02}`}[t.W(3)]
		}
	}
	sc.Batch = []int{1, 2, 3, 5, 1000}[t.W(5)]
	if !sc.Stdin && t.WBool(1, 40) {
		// one input of exactly 1024 or 2048 lines that all match, read in batches of 1024, 2048 or 4096 lines: counts that
		// are exact multiples of the sizes a stage might chunk by
		n := []int{1024, 2048}[t.W(2)]
		var b bytes.Buffer
		for i := 0; i < n; i++ {
			fmt.Fprintf(&b, "%s %s /p%d\n", genVerbs[i%len(genVerbs)], genCodes[i%len(genCodes)], i%7)
		}
		sc.Inputs = []pipeInput{{Name: "big.log", Data: b.Bytes()}}
		sc.Gunzip = false
		sc.Batch = []int{1024, 2048, 4096}[t.W(3)]
		sc.ConsLatPm = 0
	}
	sc.Workers = t.WRange(1, 4)
	if t.WBool(1, 12) {
		sc.Workers = 0 // "use the default" (two workers)
	}
	sc.Readers = t.WRange(1, 3)
	sc.Buffer = t.WRange(1, 4)
	if t.WBool(1, 2) {
		sc.ConsLatPm = []int{50, 300, 900}[t.W(3)]
		sc.ConsLatMs = []int{5, 120, 600}[t.W(3)]
	}
	// the scanner's buffer size is a constant of the tree (128 KiB); most runs shrink it so that lines
	// longer than the buffer, regrows and delimiters on the buffer's last byte happen with small inputs
	if t.FBool(3, 4) {
		sc.ScanBuf = []int{1, 2, 3, 5, 8, 16, 17, 32, 64, 100, 256, 4096}[t.F(12)]
	}
	// the matchers' index pools hold 1024 matches per block; most runs shrink them so that refills (and
	// anything that reuses a block while earlier matches are still held) happen within a few lines
	if t.FBool(2, 3) {
		sc.PoolDiv = []int{1024, 512, 341, 128}[t.F(4)]
	}
	// reader plans
	for i := range sc.Inputs {
		p := &simrt.ReadPlan{ErrAt: -1}
		p.Chunk = t.FBool(2, 3)
		if t.FBool(1, 2) {
			p.LatPermille = []int{100, 500, 1000}[t.F(3)]
			p.LatMaxMs = []int{3, 90, 400}[t.F(3)]
		}
		if sc.Stdin {
			p.Stall = t.FBool(1, 3)
		}
		sc.Inputs[i].Plan = p
	}
	if rc.Faults && t.FBool(3, 4) {
		i := t.F(len(sc.Inputs))
		in := &sc.Inputs[i]
		at := int64(t.F(len(in.Data) + 1))
		with := t.FBool(1, 2)
		if !in.Gz { // the plan counts file bytes; a cut inside a gzip stream is C06's subject
			in.Plan.ErrAt, in.Plan.ErrWithData = at, with
		}
	}
	if rc.Faults && !sc.Stdin && t.FBool(1, 4) {
		// open failures, possibly as many as (or more than) there are reader slots
		for i := range sc.Inputs {
			if t.FBool(1, 2) {
				sc.Inputs[i].Plan.OpenErr = true
				sc.Inputs[i].Plan.ErrAt = -1
			}
		}
	}
	return sc
}

type pipeOutcome struct {
	Matches      []extractor.Match // retained, in emission order
	ReadLines    uint64
	MatchedLines uint64
	IgnoredLines uint64
	ReadErrors   int
	Sim          *simrt.Sim
	BatchSizes   []int
	ConsumedAt   []time.Duration // fake time since the start of the run at which each match was consumed
}

func (sc *pipeScenario) matcherFactory() (matchers.Factory, error) {
	switch sc.MatcherKind {
	case 1:
		r, err := fastregex.CompileEx(sc.rePattern(), false)
		if err != nil {
			return nil, err
		}
		return matchers.ToFactory(r), nil
	case 2:
		d, err := dissect.CompileEx(sc.Pattern, sc.IgnoreCase)
		if err != nil {
			return nil, err
		}
		return matchers.ToFactory(d), nil
	}
	return &matchers.AlwaysMatch{}, nil
}

// rePattern is the regular expression as the CLI hands it to the matcher.
func (sc *pipeScenario) rePattern() string {
	if sc.IgnoreCase {
		return "(?i)" + sc.Pattern
	}
	return sc.Pattern
}

// writeInputs puts the file inputs into the run directory.
func (sc *pipeScenario) writeInputs() {
	if sc.Stdin {
		return
	}
	for _, in := range sc.Inputs {
		data := in.Data
		if in.Gz {
			data = gzMembers(in.Data, in.GzAt)
		}
		if err := os.WriteFile(in.Name, data, 0o644); err != nil {
			panic(err)
		}
	}
}

// buildBatcher creates the real batcher for the scenario. Must run inside the bubble.
func (sc *pipeScenario) buildBatcher(s *simrt.Sim) *batchers.Batcher {
	if sc.Stdin {
		in := sc.Inputs[0]
		return batchers.OpenReaderToChan(in.Name, &simrt.ScriptReader{Name: in.Name, Data: in.Data, Plan: in.Plan}, sc.Batch, sc.Buffer)
	}
	names := make(chan string, len(sc.Inputs))
	for _, in := range sc.Inputs {
		names <- in.Name
	}
	close(names)
	return batchers.OpenFilesToChan(names, sc.Gunzip, sc.Readers, sc.Batch, sc.Buffer)
}

// knobs returns the constant overrides of the scenario.
func (sc *pipeScenario) knobs() map[string]int {
	k := map[string]int{}
	if sc.ScanBuf > 0 {
		k["rare/pkg/extractor/batchers.ReadAheadBufferSize"] = sc.ScanBuf
	}
	if sc.PoolDiv > 1 {
		k["rare/pkg/slicepool.NewIntPool"] = sc.PoolDiv
	}
	return k
}

func (sc *pipeScenario) installPlans(s *simrt.Sim) {
	for _, in := range sc.Inputs {
		if s.Opts.Mode == simrt.ModeFree && in.Plan != nil {
			in.Plan.Rng = simrt.NewLocalRand(s.Tape)
		}
		s.FS.SetPlan(in.Name, in.Plan)
	}
}

// runPipe executes the scenario in one bubble.
func runPipe(rc *RunCtx, sc *pipeScenario, opts simrt.Opts) *pipeOutcome {
	return runPipeHook(rc, sc, opts, nil)
}

// runPipeHook is runPipe with a hook that runs first inside the bubble.
func runPipeHook(rc *RunCtx, sc *pipeScenario, opts simrt.Opts, hook func()) *pipeOutcome {
	sc.writeInputs()
	out := &pipeOutcome{}
	opts.Knobs = sc.knobs()
	s := rc.NewSim(opts)
	sc.installPlans(s)
	t := rc.Tape
	var ext *extractor.Extractor
	var bat *batchers.Batcher
	var setupErr error
	s.Run(rc.T, func() {
		if hook != nil {
			hook()
		}
		mf, err := sc.matcherFactory()
		if err != nil {
			setupErr = err
			return
		}
		var ign extractor.IgnoreSet
		if len(sc.Ignores) > 0 {
			ign, err = extractor.NewIgnoreExpressions(sc.Ignores...)
			if err != nil {
				setupErr = err
				return
			}
		}
		bat = sc.buildBatcher(s)
		ext, err = extractor.New(bat.BatchChan(), &extractor.Config{Matcher: mf, Extract: sc.Extract, Workers: sc.Workers, Ignore: ign})
		if err != nil {
			setupErr = err
			return
		}
		for mb := range ext.ReadChan() {
			simrt.Yield("world:consumer-recv")
			out.BatchSizes = append(out.BatchSizes, len(mb))
			out.Matches = append(out.Matches, mb...)
			for range mb {
				out.ConsumedAt = append(out.ConsumedAt, s.Now())
			}
			if sc.ConsLatPm > 0 && t.F(1000) < sc.ConsLatPm {
				time.Sleep(time.Duration(1+t.F(sc.ConsLatMs)) * time.Millisecond)
				simrt.Yield("world:consumer-latency")
			}
		}
		simrt.Yield("world:consumer-end")
	})
	if setupErr != nil {
		panic(fmt.Sprintf("scenario does not compile: %v (%+v)", setupErr, sc.describe()))
	}
	out.Sim = s
	rc.Absorb(s)
	if ext != nil {
		out.ReadLines, out.MatchedLines, out.IgnoredLines = ext.ReadLines(), ext.MatchedLines(), ext.IgnoredLines()
	}
	if bat != nil {
		out.ReadErrors = bat.ReadErrors()
	}
	return out
}

// ---------- sequential reference ----------

type refCtx struct {
	line   string
	idx    []int
	names  map[string]int
	src    string
	lineNo uint64
}

func (c *refCtx) GetMatch(i int) string {
	if i < 0 || 2*i+1 >= len(c.idx) {
		return ""
	}
	s, e := c.idx[2*i], c.idx[2*i+1]
	if s < 0 || e < 0 {
		return ""
	}
	return c.line[s:e]
}

func (c *refCtx) GetKey(k string) string {
	switch k {
	case "src":
		return c.src
	case "line":
		return fmt.Sprint(c.lineNo)
	case "@":
		var parts []string
		for i := 1; i < len(c.idx)/2; i++ {
			parts = append(parts, c.GetMatch(i))
		}
		return strings.Join(parts, expressions.ArraySeparatorString)
	}
	if i, ok := c.names[k]; ok {
		return c.GetMatch(i)
	}
	return stdlib.ErrorArgName
}

// refDissect is an independent implementation of the documented dissect subset (case-sensitive).
type refDissectTok struct {
	name, until string
	skip        bool
}

func refDissectCompile(p string) (prefix string, toks []refDissectTok, names map[string]int) {
	names = map[string]int{}
	i := strings.Index(p, "%{")
	if i < 0 {
		return p, nil, names
	}
	prefix = p[:i]
	rest := p[i:]
	g := 0
	for strings.HasPrefix(rest, "%{") {
		j := strings.Index(rest, "}")
		name := rest[2:j]
		rest = rest[j+1:]
		k := strings.Index(rest, "%{")
		until := rest
		if k >= 0 {
			until = rest[:k]
			rest = rest[k:]
		} else {
			rest = ""
		}
		tk := refDissectTok{name: name, until: until}
		if name == "" || name[0] == '?' {
			tk.skip = true
		} else {
			g++
			names[name] = g
		}
		toks = append(toks, tk)
	}
	return
}

func refDissectMatch(prefix string, toks []refDissectTok, line string) []int {
	start := 0
	if prefix != "" {
		i := strings.Index(line, prefix)
		if i < 0 {
			return nil
		}
		start = i + len(prefix)
	}
	idx := []int{start - len(prefix), 0}
	for _, tk := range toks {
		end := len(line)
		if tk.until != "" {
			j := strings.Index(line[start:], tk.until)
			if j < 0 {
				return nil
			}
			end = start + j
		}
		if !tk.skip {
			idx = append(idx, start, end)
		}
		start = end + len(tk.until)
	}
	idx[1] = start
	return idx
}

type refLine struct {
	Src     string
	No      uint64
	Text    string
	Idx     []int // nil: unmatched
	Class   int   // 0 unmatched, 1 matched, 2 ignored
	Key     string
}

type pipeRef struct {
	Lines   map[string][]refLine // per input, in order
	Order   []string
	Read    uint64
	Matched uint64
	Ignored uint64
}

// delivered returns the bytes of an input that its reader hands over before EOF or the injected error.
func (in *pipeInput) failsOpen() bool { return in.Plan != nil && in.Plan.OpenErr }

func (in *pipeInput) delivered() []byte {
	if in.failsOpen() {
		return nil
	}
	if in.Plan != nil && in.Plan.ErrAt >= 0 && in.Plan.ErrAt < int64(len(in.Data)) {
		return in.Data[:in.Plan.ErrAt]
	}
	return in.Data
}

func (in *pipeInput) failsRead() bool {
	if in.failsOpen() {
		return true
	}
	return in.Plan != nil && in.Plan.ErrAt >= 0 && in.Plan.ErrAt <= int64(len(in.Data))
}

// buildRef classifies every delivered line sequentially: stdlib regexp / reference dissect on a private
// copy of the line, and rare's expression engine on a fresh single-threaded instance per scenario.
func buildRef(sc *pipeScenario) *pipeRef {
	ref := &pipeRef{Lines: map[string][]refLine{}}
	var re *regexp.Regexp
	var dPrefix string
	var dToks []refDissectTok
	names := map[string]int{}
	switch sc.MatcherKind {
	case 1:
		re = regexp.MustCompile(sc.rePattern())
		for i, n := range re.SubexpNames() {
			if n != "" {
				names[n] = i
			}
		}
	case 2:
		dPrefix, dToks, names = refDissectCompile(sc.Pattern)
	}
	kb, err := funclib.NewKeyBuilder().Compile(sc.Extract)
	if err != nil {
		panic(err)
	}
	var igs []*expressions.CompiledKeyBuilder
	for _, ig := range sc.Ignores {
		c, err := funclib.NewKeyBuilder().Compile(ig)
		if err != nil {
			panic(err)
		}
		igs = append(igs, c)
	}
	for _, in := range sc.Inputs {
		ref.Order = append(ref.Order, in.Name)
		for i, raw := range refSplit(in.delivered()) {
			text := string(raw)
			rl := refLine{Src: in.Name, No: uint64(i + 1), Text: text}
			ref.Read++
			switch sc.MatcherKind {
			case 0:
				rl.Idx = []int{0, len(text)}
			case 1:
				rl.Idx = re.FindSubmatchIndex([]byte(text))
			case 2:
				rl.Idx = refDissectMatch(dPrefix, dToks, text)
			}
			if len(rl.Idx) > 0 {
				ctx := &refCtx{line: text, idx: rl.Idx, names: names, src: in.Name, lineNo: rl.No}
				ignored := false
				for _, ig := range igs {
					// truthy as documented: anything but empty/whitespace-only (the world's own test, not rare's helper)
					if strings.TrimSpace(ig.BuildKey(ctx)) != "" {
						ignored = true
						break
					}
				}
				if !ignored {
					rl.Key = kb.BuildKey(ctx)
					if len(rl.Key) > 0 {
						rl.Class = 1
						ref.Matched++
					} else {
						ignored = true
					}
				}
				if ignored {
					rl.Class = 2
					ref.Ignored++
				}
			} else {
				rl.Idx = nil
			}
			ref.Lines[in.Name] = append(ref.Lines[in.Name], rl)
		}
	}
	return ref
}

// checkCounts is C01's oracle: totals and the multiset of (source, line number, key).
func checkCounts(rc *RunCtx, sc *pipeScenario, ref *pipeRef, out *pipeOutcome) {
	if out.ReadLines != ref.Read {
		rc.Violate("read-count", "ReadLines=%d, reference read %d lines", out.ReadLines, ref.Read)
	}
	if out.MatchedLines != ref.Matched {
		rc.Violate("matched-count", "MatchedLines=%d, reference matched %d", out.MatchedLines, ref.Matched)
	}
	if out.IgnoredLines != ref.Ignored {
		rc.Violate("ignored-count", "IgnoredLines=%d, reference ignored %d", out.IgnoredLines, ref.Ignored)
	}
	want := map[string]int{}
	for _, ls := range ref.Lines {
		for _, l := range ls {
			if l.Class == 1 {
				want[fmt.Sprintf("%s\x00%d\x00%s", l.Src, l.No, l.Key)]++
			}
		}
	}
	got := map[string]int{}
	for _, m := range out.Matches {
		got[fmt.Sprintf("%s\x00%d\x00%s", m.Source, m.LineNumber, m.Extracted)]++
	}
	var diffs []string
	for k, n := range want {
		if got[k] != n {
			diffs = append(diffs, fmt.Sprintf("%q: emitted %d times, reference %d", k, got[k], n))
		}
	}
	for k, n := range got {
		if _, ok := want[k]; !ok {
			diffs = append(diffs, fmt.Sprintf("%q: emitted %d times, reference 0", k, n))
		}
	}
	if len(diffs) > 0 {
		sort.Strings(diffs)
		if len(diffs) > 8 {
			diffs = append(diffs[:8], fmt.Sprintf("… %d more", len(diffs)-8))
		}
		rc.Violate("key-multiset", "emitted (source,line,key) multiset differs from the sequential reference:\n%s", strings.Join(diffs, "\n"))
	}
	for _, n := range out.BatchSizes {
		if n < 1 || n > sc.Batch {
			rc.Violate("batch-size", "a match batch of %d entries was delivered with --batch %d", n, sc.Batch)
			break
		}
	}
	wantErr := 0
	for _, in := range sc.Inputs {
		if in.failsRead() {
			wantErr++
		}
	}
	if out.ReadErrors != wantErr {
		rc.Violate("read-errors", "ReadErrors=%d, injected %d open/read errors", out.ReadErrors, wantErr)
	}
}

// checkFidelity is C02's oracle: every retained match, read only after the run is over.
func checkFidelity(rc *RunCtx, sc *pipeScenario, ref *pipeRef, out *pipeOutcome) {
	bad := 0
	report := func(class, f string, a ...any) {
		bad++
		if bad <= 3 {
			rc.Violate(class, f, a...)
		}
	}
	for i := range out.Matches {
		m := &out.Matches[i]
		ls, ok := ref.Lines[m.Source]
		if !ok {
			report("source", "match %d carries source %q which is not an input", i, m.Source)
			continue
		}
		if m.LineNumber < 1 || int(m.LineNumber) > len(ls) {
			report("line-number", "match %d of %s carries line number %d; the input has %d lines", i, m.Source, m.LineNumber, len(ls))
			continue
		}
		rl := ls[m.LineNumber-1]
		if m.Line != rl.Text {
			report("line-text", "match %d: %s line %d reads %q after the run; the input's line is %q", i, m.Source, m.LineNumber, clip(m.Line, 120), clip(rl.Text, 120))
			continue
		}
		if rl.Class != 1 {
			report("not-a-match", "match %d: %s line %d %q was emitted but the reference classifies it %d (0 unmatched, 2 ignored)", i, m.Source, m.LineNumber, clip(rl.Text, 80), rl.Class)
			continue
		}
		if fmt.Sprint(m.Indices) != fmt.Sprint(rl.Idx) {
			report("indices", "match %d: %s line %d %q indices %v, leftmost match of the reference %v", i, m.Source, m.LineNumber, clip(rl.Text, 80), m.Indices, rl.Idx)
			continue
		}
		if m.Extracted != rl.Key {
			report("extracted", "match %d: %s line %d key %q, reference %q", i, m.Source, m.LineNumber, m.Extracted, rl.Key)
		}
	}
	if sc.Workers == 1 && (sc.Readers == 1 || len(sc.Inputs) == 1) {
		// emitted in input order
		pos := map[string]int{}
		for i, n := range ref.Order {
			pos[n] = i
		}
		for i := 1; i < len(out.Matches); i++ {
			a, b := out.Matches[i-1], out.Matches[i]
			if pos[a.Source] > pos[b.Source] || (a.Source == b.Source && a.LineNumber >= b.LineNumber) {
				rc.Violate("order", "one reader, one worker: match %s:%d was emitted before %s:%d", a.Source, a.LineNumber, b.Source, b.LineNumber)
				break
			}
		}
	}
}

func pipeNontrivial(out *pipeOutcome, ref *pipeRef) bool {
	return out.Sim.MultiChoice > 0 && ref.Read > 0
}

func init() {
	worlds["C01"] = func(rc *RunCtx) {
		if (rc.Index/2)%8 == 5 && rc.Mode != simrt.ModeFree {
			// one run in eight: followed files (-f/-F) through batchers.TailFilesToChan - every line of the appended streams
			// is delivered once, in order, with gap-free numbering (zz_c15b_test.go)
			c15BatchWorld(rc)
			return
		}
		if rc.Tape.WBool(1, 5) && rc.Mode != simrt.ModeFree {
			cliFilterWorld(rc, "C01") // CLI-level variant: stderr summary, exit status, printed keys
			return
		}
		max := 40
		if rc.Tier == "thorough" && rc.Tape.WBool(1, 50) {
			max = 400
		}
		sc := genPipeScenario(rc, true, max)
		rc.Sample = sc.describe()
		out := runPipe(rc, sc, simrt.Opts{MaxSteps: 400000, IdleLimit: time.Hour})
		if !rc.StdEnd(out.Sim, "termination") {
			return
		}
		ref := buildRef(sc)
		checkCounts(rc, sc, ref, out)
		rc.Nontrivial = pipeNontrivial(out, ref)
		rc.Logf("read=%d matched=%d ignored=%d emitted=%d", out.ReadLines, out.MatchedLines, out.IgnoredLines, len(out.Matches))
	}
	worlds["C02"] = func(rc *RunCtx) {
		if (rc.Index/2)%4 == 1 && rc.Mode != simrt.ModeFree {
			// one run in four: followed files - source, line numbers and text of what TailFilesToChan hands to the workers
			c15BatchWorld(rc)
			return
		}
		if rc.Tape.WBool(1, 5) && rc.Mode != simrt.ModeFree {
			cliFilterWorld(rc, "C02") // CLI-level variant: default filter output with colour codes stripped, -l prefixes
			return
		}
		max := 40
		if rc.Tier == "thorough" && rc.Tape.WBool(1, 50) {
			max = 400
		}
		sc := genPipeScenario(rc, true, max)
		rc.Sample = sc.describe()
		out := runPipe(rc, sc, simrt.Opts{MaxSteps: 400000, IdleLimit: time.Hour})
		if !rc.StdEnd(out.Sim, "termination") {
			return
		}
		ref := buildRef(sc)
		checkFidelity(rc, sc, ref, out)
		rc.Nontrivial = pipeNontrivial(out, ref) && len(out.Matches) > 0
		rc.Logf("emitted=%d", len(out.Matches))
		for _, m := range out.Matches {
			rc.Logf("%s:%d %q", m.Source, m.LineNumber, m.Extracted)
		}
	}
}
