package main

// C15, batch level: batchers.TailFilesToChan (what `rare ... -f/-F` really runs) over 1-3 followed files,
// each with its own real follow reader (notify or poll), the immediate scanner and the 250ms time flush,
// drained by a simulated consumer; one simulated writer client executes a drawn history of
// append / pause / remove-after-drain / re-create over the files.
//
// Safety at every delivered batch: Source is one of the followed paths, BatchStart continues the line
// numbering of that source without gap or overlap, 1 <= len <= batchSize, and the lines delivered so far are
// a prefix of the complete lines appended after the start position (all incarnations, in order).
// Bounded liveness after the history: the reader has read everything, fewer than batchSize complete lines
// wait for the next flush; one more line appended after 300ms of silence flushes everything (the time flush);
// when every file was removed under plain follow the batch channel closes and every byte - including an
// unterminated last line - was delivered.

import (
	"bytes"
	"fmt"
	"os"
	"regexp"
	"strconv"
	"strings"
	"time"

	"github.com/fsnotify/fsnotify"

	"rare/pkg/extractor"
	"rare/pkg/extractor/batchers"
	"rare/pkg/logger"
	"simrt"
)

type tailFile struct {
	path       string
	expected   []byte // bytes appended after the start position, all incarnations, in order
	size       int64  // size of the current incarnation
	exists     bool
	streamOver bool // plain follow: removed after its data was read
	missing    bool // never existed (plain follow: an open error)
	opensAtNew int  // opens of the path seen when the current incarnation was created
	incarn     int
	f          *os.File
	lines      [][]byte // delivered lines
	nextLine   uint64
	batches    int
}

type c15bWorld struct {
	rc        *RunCtx
	s         *simrt.Sim
	files     []*tailFile
	byPath    map[string]*tailFile
	reopen    bool
	poll      bool
	tail      bool
	batchSize int
	tok       int
	crlf      bool
	ops       []string
	bad       bool
	consPm    int
	consMs    int
	armedOp   string
	armedFile *tailFile
	closed    bool
	closedAt  time.Duration
	// command-line mode: `rare filter -l -f|-F [--poll] [--tail]` in-process instead of TailFilesToChan + consumer
	cli     bool
	workers int
	proc    *cliProc
	outOff  int
	seen    map[string]map[uint64]bool
	cliArgs []string
}

func (w *c15bWorld) mode() string {
	if w.cli {
		return fmt.Sprintf("`rare %s` (follow mode through the command line) files=%d", strings.Join(w.cliArgs, " "), len(w.files))
	}
	return fmt.Sprintf("TailFilesToChan poll=%v reopen=%v tail=%v batch=%d files=%d", w.poll, w.reopen, w.tail, w.batchSize, len(w.files))
}

// allow is the fake time the run's slow consumer may legitimately need on top of every liveness bound: it holds
// every batch for up to consMs, and a full batch channel holds up the readers behind it.
func (w *c15bWorld) allow() time.Duration {
	if w.consPm == 0 {
		return 0
	}
	lines := 8
	for _, tf := range w.files {
		lines += bytes.Count(tf.expected, []byte{'\n'}) + 1
	}
	return time.Duration(lines) * time.Duration(w.consMs) * time.Millisecond
}

func (w *c15bWorld) opf(f string, a ...any) {
	w.ops = append(w.ops, fmt.Sprintf("t=%v ", w.s.Now())+fmt.Sprintf(f, a...))
}

func (w *c15bWorld) history() string {
	out := ""
	for _, o := range w.ops {
		out += "\n  " + o
	}
	return out
}

func (w *c15bWorld) chunk(n int) []byte {
	var b bytes.Buffer
	for b.Len() < n {
		w.tok++
		fmt.Fprintf(&b, "%d:", w.tok)
		if w.rc.Tape.WBool(1, 3) {
			if w.crlf && w.rc.Tape.WBool(1, 3) {
				b.WriteByte('\r')
			}
			b.WriteByte('\n')
		}
	}
	return b.Bytes()[:n]
}

// pos replays the fs log of a path: where the follow reader's handle stands in the file it has open.
func (w *c15bWorld) pos(path string) (pos int64, opens int) {
	for _, e := range w.s.FS.Log {
		if e.Path != path {
			continue
		}
		switch e.Op {
		case "open":
			pos = 0
			opens++
		case "seek":
			pos = e.Off
		case "read":
			pos += int64(e.N)
		}
	}
	return
}

// drained: the follow reader has the current incarnation open and has read all of it.
func (w *c15bWorld) drained(tf *tailFile) bool {
	p, opens := w.pos(tf.path)
	return opens > tf.opensAtNew && p >= tf.size
}

func completeLines(data []byte) [][]byte {
	ls := refSplit(data)
	if len(data) > 0 && data[len(data)-1] != '\n' && len(ls) > 0 {
		ls = ls[:len(ls)-1]
	}
	return ls
}

func (w *c15bWorld) waitUntil(limit time.Duration, cond func() bool) bool {
	for el := time.Duration(0); el < limit; el += 50 * time.Millisecond {
		w.pollStdout()
		if cond() {
			return true
		}
		time.Sleep(50 * time.Millisecond)
		simrt.Yield("world:wait")
	}
	w.pollStdout()
	return cond()
}

var cliLinePrefix = regexp.MustCompile(`^(\S+) (\d+): `)

// pollStdout (command-line mode) reads what `rare filter -l` has printed since the last call and checks every complete
// output line: its source is a followed path, its number and text are those of one line of the appended stream, no line is
// printed twice, and with one worker the lines of a source come in order.
func (w *c15bWorld) pollStdout() {
	if !w.cli || w.proc == nil {
		return
	}
	if w.proc.Done && !w.closed {
		w.closed = true
		w.closedAt = w.s.Now()
	}
	data, err := os.ReadFile(w.proc.OutName)
	if err != nil || len(data) <= w.outOff {
		return
	}
	rest := data[w.outOff:]
	for {
		nl := bytes.IndexByte(rest, '\n')
		if nl < 0 {
			break
		}
		line := rest[:nl]
		rest = rest[nl+1:]
		w.outOff += nl + 1
		w.onPrinted(line)
	}
}

func (w *c15bWorld) onPrinted(line []byte) {
	if w.bad {
		return
	}
	m := cliLinePrefix.FindSubmatch(line)
	if m == nil {
		w.bad = true
		w.rc.Violate("cli-follow-output-shape", "%s: printed line %q does not have the form `<source> <line>: <text>`\nhistory:%s", w.mode(), line, w.history())
		return
	}
	src, text := string(m[1]), line[len(m[0]):]
	n, _ := strconv.ParseUint(string(m[2]), 10, 64)
	tf := w.byPath[src]
	if tf == nil {
		w.bad = true
		w.rc.Violate("batch-source", "%s: a printed line names the source %q, which is not a followed path", w.mode(), src)
		return
	}
	ref := refSplit(tf.expected)
	limit := len(completeLines(tf.expected))
	if tf.streamOver {
		limit = len(ref)
	}
	if w.seen[src] == nil {
		w.seen[src] = map[uint64]bool{}
	}
	switch {
	case w.seen[src][n]:
		w.bad = true
		w.rc.Violate("lines-not-a-prefix-duplicate", "%s: line %d of %s was printed twice (second time as %q)\nhistory:%s", w.mode(), n, src, text, w.history())
	case n < 1 || int(n) > limit || !bytes.Equal(ref[n-1], text):
		w.bad = true
		want := "(nothing: the appended stream has no such complete line)"
		if n >= 1 && int(n) <= len(ref) {
			want = fmt.Sprintf("%q", ref[n-1])
		}
		kind := "loss-or-reorder"
		for _, d := range tf.lines {
			if len(text) > 0 && bytes.Equal(d, text) {
				kind = "duplicate"
			}
		}
		w.rc.Violate("lines-not-a-prefix-"+kind, "%s: printed `%s %d: %s` at fake t=%v; line %d of the stream appended to %s after the start position is %s (%d complete lines appended so far)\nhistory:%s",
			w.mode(), src, n, text, w.s.Now(), n, src, want, limit, w.history())
	case w.workers == 1 && int(n) != len(tf.lines)+1:
		w.bad = true
		w.rc.Violate("batch-line-number", "%s: %s: line %d printed after %d lines (one worker: lines of a source come in order)\nhistory:%s", w.mode(), src, n, len(tf.lines), w.history())
	}
	w.seen[src][n] = true
	tf.lines = append(tf.lines, append([]byte(nil), text...))
}

func (w *c15bWorld) appendTo(tf *tailFile, data []byte) {
	if tf.f == nil {
		h, err := os.OpenFile(tf.path, os.O_APPEND|os.O_WRONLY, 0o644)
		if err != nil {
			panic(err)
		}
		tf.f = h
	}
	if !tf.streamOver {
		tf.expected = append(tf.expected, data...)
	}
	tf.size += int64(len(data))
	if _, err := tf.f.Write(data); err != nil {
		panic(err)
	}
	w.opf("%s: append %q", tf.path, data)
	fsnotify.SimNotify(tf.path, fsnotify.Write)
	if w.rc.Tape.WBool(1, 3) {
		tf.f.Close()
		tf.f = nil
	}
}

func (w *c15bWorld) consumer(b *batchers.Batcher) {
	t := w.rc.Tape
	for batch := range b.BatchChan() {
		simrt.Yield("world:consumer-recv")
		w.onBatch(batch)
		// back-pressure profile of the run: an attentive, a distracted or a very slow consumer
		if t.F(1000) < w.consPm {
			time.Sleep(time.Duration(1+t.F(w.consMs)) * time.Millisecond)
			simrt.Yield("world:consumer-latency")
		}
	}
	simrt.Yield("world:consumer-closed")
	w.closed = true
	w.closedAt = w.s.Now()
}

func (w *c15bWorld) onBatch(batch extractor.InputBatch) {
	tf := w.byPath[batch.Source]
	if tf == nil {
		w.rc.Violate("batch-source", "%s: a batch names the source %q, which is not a followed path", w.mode(), batch.Source)
		w.bad = true
		return
	}
	tf.batches++
	if len(batch.Batch) < 1 || len(batch.Batch) > w.batchSize {
		w.rc.Violate("batch-size", "%s: %s: batch of %d lines (batch size %d)", w.mode(), tf.path, len(batch.Batch), w.batchSize)
	}
	if batch.BatchStart != tf.nextLine && !w.bad {
		w.bad = true
		w.rc.Violate("batch-line-number", "%s: %s: batch #%d starts at line %d, the lines delivered before end at %d\nhistory:%s", w.mode(), tf.path, tf.batches, batch.BatchStart, tf.nextLine-1, w.history())
	}
	tf.nextLine = batch.BatchStart + uint64(len(batch.Batch))
	ref := refSplit(tf.expected)
	complete := len(completeLines(tf.expected))
	for _, l := range batch.Batch {
		i := len(tf.lines)
		tf.lines = append(tf.lines, append([]byte(nil), l...))
		if w.bad {
			continue
		}
		limit := complete
		if tf.streamOver {
			limit = len(ref) // the end of a stream delivers its unterminated tail
		}
		if i >= limit || !bytes.Equal(ref[i], l) {
			w.bad = true
			kind := "loss-or-reorder"
			for _, d := range tf.lines[:i] {
				if len(l) > 0 && bytes.Equal(d, l) {
					kind = "duplicate"
				}
			}
			want := "(nothing: no further complete line was appended)"
			if i < len(ref) {
				want = fmt.Sprintf("%q", ref[i])
			}
			w.rc.Violate("lines-not-a-prefix-"+kind, "%s: %s: delivered line #%d is %q at fake t=%v; the appended stream has %s there (%d complete lines appended so far)\nhistory:%s",
				w.mode(), tf.path, i+1, l, w.s.Now(), want, complete, w.history())
		}
	}
}

func c15BatchWorld(rc *RunCtx) {
	t := rc.Tape
	fsnotify.SimReset()
	w := &c15bWorld{rc: rc, byPath: map[string]*tailFile{}}
	w.poll = t.WBool(1, 2)
	w.reopen = t.WBool(1, 2)
	w.tail = t.WBool(1, 3)
	w.crlf = t.WBool(1, 3)
	w.batchSize = []int{1, 2, 3, 5, 1000}[t.W(5)]
	w.consPm, w.consMs = []int{0, 160, 500, 1000}[t.F(4)], []int{40, 300, 1200}[t.F(3)]
	buffer := 1 + t.W(3)
	nFiles := 1 + t.W(3)
	nOps := t.WRange(1, 14)
	withMissing := !w.reopen && nFiles > 1 && t.WBool(1, 6)
	w.cli = rc.Mode != simrt.ModeFree && t.WBool(1, 3)
	if w.cli {
		w.consPm = 0
		w.workers = []int{1, 1, 2, 3}[t.W(4)]
		w.seen = map[string]map[uint64]bool{}
	}
	opts := simrt.Opts{MaxSteps: 400000, IdleLimit: time.Hour}
	if t.WBool(2, 3) {
		opts.Knobs = map[string]int{"rare/pkg/extractor/batchers.ReadAheadBufferSize": []int{1, 2, 5, 16, 64, 1024}[t.W(6)]}
	}
	s := rc.NewSim(opts)
	w.s = s
	initial := make([]int, nFiles)
	for i := 0; i < nFiles; i++ {
		tf := &tailFile{path: fmt.Sprintf("t%d.log", i), nextLine: 1}
		if t.WBool(2, 3) {
			initial[i] = t.W(60)
		}
		w.files = append(w.files, tf)
		w.byPath[tf.path] = tf
		plan := &simrt.ReadPlan{ErrAt: -1}
		if rc.Faults {
			plan.Chunk = t.FBool(2, 3)
			if t.FBool(1, 2) {
				plan.LatPermille = []int{100, 500}[t.F(2)]
				plan.LatMaxMs = []int{3, 120}[t.F(2)]
			}
		}
		s.FS.SetPlan(tf.path, plan)
	}
	if withMissing {
		w.files[nFiles-1].missing = true
	}
	s.FS.Hook = func(op, path string) {
		tf := w.armedFile
		if w.armedOp == "" || tf == nil || op != w.armedOp || path != tf.path || !tf.exists || tf.streamOver || w.bad {
			return
		}
		w.armedOp = ""
		w.opf("(right after the reader's %s call on %s)", op, path)
		w.appendTo(tf, w.chunk(1+rc.Tape.W(20)))
		rc.Fired["append-between-syscalls"]++
	}
	var batcher *batchers.Batcher
	logger.DeferLogs()
	defer func() {
		// flush rare's deferred log buffer without polluting the worker's stderr
		if devnull, err := os.OpenFile(os.DevNull, os.O_WRONLY, 0); err == nil {
			old := os.Stderr
			os.Stderr = devnull
			logger.ImmediateLogs()
			os.Stderr = old
			devnull.Close()
		}
	}()
	s.Run(rc.T, func() {
		names := make(chan string, nFiles)
		for i, tf := range w.files {
			if tf.missing {
				names <- tf.path
				continue
			}
			init := w.chunk(initial[i])
			if err := os.WriteFile(tf.path, init, 0o644); err != nil {
				panic(err)
			}
			s.RegisterCreate(tf.path, false)
			tf.exists, tf.size, tf.incarn = true, int64(len(init)), 1
			if !w.tail {
				tf.expected = append(tf.expected, init...)
			}
			w.opf("%s: initial content %q", tf.path, init)
			names <- tf.path
		}
		close(names)
		if w.cli {
			args := []string{"filter", "-l", "--batch", strconv.Itoa(w.batchSize), "--batch-buffer", strconv.Itoa(buffer), "--workers", strconv.Itoa(w.workers)}
			switch {
			case w.reopen && t.WBool(1, 2):
				args = append(args, "-F")
			case w.reopen:
				args = append(args, []string{"--reopen", "-f"}[:1+t.W(2)]...)
			default:
				args = append(args, []string{"-f", "--follow"}[t.W(2)])
			}
			if w.poll {
				args = append(args, "--poll")
			}
			if w.tail {
				args = append(args, []string{"--tail", "-t"}[t.W(2)])
			}
			if t.WBool(1, 3) {
				args = append(args, "-e", "{0}")
			}
			for range w.files {
				<-names
			}
			for _, tf := range w.files {
				args = append(args, tf.path)
			}
			w.cliArgs = args
			w.proc = cliBegin()
			simrt.Go("world:cli", func() { w.proc.exec(args) })
			simrt.Yield("world:spawned-cli")
		} else {
			batcher = batchers.TailFilesToChan(names, w.batchSize, buffer, w.reopen, w.poll, w.tail)
			simrt.Yield("world:started")
			simrt.Go("world:consumer", func() { w.consumer(batcher) })
			simrt.Yield("world:spawned-consumer")
		}
		// the start position is defined once each reader is constructed (watcher established) and drained:
		// TailFilesToChan registers the file as active right after that
		nLive := 0
		for _, tf := range w.files {
			if !tf.missing {
				nLive++
			}
		}
		ready := func() bool {
			if !w.cli && batcher.ActiveFileCount() != nLive {
				return false
			}
			for _, tf := range w.files {
				seeks, reads := 0, 0
				for _, e := range s.FS.Log {
					if e.Path == tf.path && e.Op == "seek" {
						seeks++
					}
					if e.Path == tf.path && e.Op == "read" {
						reads++
					}
				}
				if w.cli && !tf.missing && reads == 0 {
					return false // command line: the reader's first read call comes after its construction (and Drain)
				}
				if w.tail && !tf.missing && seeks == 0 {
					return false // --tail: the start position is the end of the file once Drain has run
				}
			}
			return true
		}
		if !w.waitUntil(30*time.Second, ready) {
			rc.Violate("reader-not-ready", "%s: not every follow reader was constructed within 30 simulated seconds", w.mode())
			return
		}
		live := func() []*tailFile {
			var out []*tailFile
			for _, tf := range w.files {
				if !tf.missing {
					out = append(out, tf)
				}
			}
			return out
		}()
		for op := 0; op < nOps && !w.bad; op++ {
			tf := live[t.W(len(live))]
			k := t.W(10)
			switch {
			case k <= 4 && tf.exists:
				data := w.chunk(1 + t.W(40))
				if t.WBool(1, 4) && len(data) > 1 {
					c := 1 + t.W(len(data)-1)
					w.appendTo(tf, data[:c])
					w.appendTo(tf, data[c:])
				} else {
					w.appendTo(tf, data)
				}
			case k == 6 && t.WBool(1, 2):
				// life around the followed file: a sibling in the same directory whose name contains the followed name is
				// created, written and removed (a rotated copy, an editor's backup). None of it is about the followed file
				sib := []string{"x" + tf.path, tf.path + ".1", "old-" + tf.path, tf.path + "~"}[t.W(4)]
				if _, err := os.Lstat(sib); err != nil {
					if err := os.WriteFile(sib, []byte("not the followed file\n"), 0o644); err != nil {
						panic(err)
					}
					w.opf("%s: a sibling file is created and written", sib)
					fsnotify.SimNotify(sib, fsnotify.Create)
					fsnotify.SimNotify(sib, fsnotify.Write)
				} else {
					os.Remove(sib)
					w.opf("%s: the sibling file is removed", sib)
					fsnotify.SimNotify(sib, fsnotify.Remove)
				}
				rc.Fired["sibling-file-event"]++
			case k <= 6:
				// (multiples of the 250ms poll period put the writer and the poller at the same fake instant, where the scheduler
				// decides who goes first, between any two of the poller's system calls)
				d := []time.Duration{time.Millisecond, 30 * time.Millisecond, 249 * time.Millisecond, 251 * time.Millisecond, 1300 * time.Millisecond, 3 * time.Second, 250 * time.Millisecond, 500 * time.Millisecond, 1250 * time.Millisecond, 200 * time.Millisecond, 50 * time.Millisecond}[t.W(11)]
				w.opf("pause %v", d)
				time.Sleep(d)
				simrt.Yield("world:pause")
			case k == 7 && tf.exists && !tf.streamOver:
				if !w.waitUntil(2*c15Bound+w.allow(), func() bool { return w.drained(tf) || w.closed }) {
					p, _ := w.pos(tf.path)
					rc.Violate("liveness-before-remove", "%s: %s: the follow reader read %d of %d bytes %v after the last append (file in place)\nhistory:%s", w.mode(), tf.path, p, tf.size, 2*c15Bound, w.history())
					w.bad = true
					break
				}
				if tf.f != nil {
					tf.f.Close()
					tf.f = nil
				}
				tf.exists = false
				if !w.reopen {
					// from here on the stream may end (and deliver an unterminated last line)
					tf.streamOver = true
				}
				if w.reopen && t.WBool(1, 3) {
					tf.incarn++
					if err := os.Rename(tf.path, fmt.Sprintf("%s.%d", tf.path, tf.incarn)); err != nil {
						panic(err)
					}
					w.opf("%s: rename away (after the reader read all %d bytes)", tf.path, tf.size)
					fsnotify.SimNotify(tf.path, fsnotify.Rename)
					rc.Fired["rotated-by-rename"]++
					break
				}
				s.RegisterRemove(tf.path)
				if err := os.Remove(tf.path); err != nil {
					panic(err)
				}
				w.opf("%s: remove (after the reader read all %d bytes)", tf.path, tf.size)
				fsnotify.SimNotify(tf.path, fsnotify.Remove)
			case k >= 8 && tf.exists && !tf.streamOver:
				w.armedOp, w.armedFile = []string{"stat", "read", "read", "open"}[t.W(4)], tf
				w.opf("%s: arm: append right after the reader's next %s", tf.path, w.armedOp)
				w.waitUntil(3*time.Second, func() bool { return w.armedOp == "" })
				w.armedOp = ""
			case k >= 8 && !tf.exists && (w.reopen || tf.streamOver):
				prev := tf.size
				if w.poll && !tf.streamOver && prev < 2 {
					continue
				}
				h, err := os.OpenFile(tf.path, os.O_CREATE|os.O_EXCL|os.O_WRONLY|os.O_APPEND, 0o644)
				if err != nil {
					panic(err)
				}
				tf.f = h
				tf.exists = true
				tf.size = 0
				tf.incarn++
				_, tf.opensAtNew = w.pos(tf.path)
				if c15Recreated(rc, s, tf.path) {
					w.opf("%s: re-create (the file system reuses the inode number of the removed file)", tf.path)
				} else {
					w.opf("%s: re-create", tf.path)
				}
				fsnotify.SimNotify(tf.path, fsnotify.Create)
				if tf.streamOver {
					continue
				}
				if w.poll {
					// keep the new file shorter than what was read before until the poller has noticed it
					if t.WBool(3, 4) {
						w.appendTo(tf, w.chunk(1+t.W(int(prev)-1)))
					}
					if !w.waitUntil(2*c15Bound+w.allow(), func() bool { _, o := w.pos(tf.path); return o > tf.opensAtNew }) {
						rc.Violate("liveness-reopen", "%s: %s: the re-created file (shorter than the %d bytes read before) was not re-opened within %v\nhistory:%s", w.mode(), tf.path, prev, 2*c15Bound, w.history())
						w.bad = true
					}
				} else if t.WBool(1, 2) {
					w.appendTo(tf, w.chunk(1+t.W(40)))
				}
			}
		}
		w.opf("end of history")
		if w.bad {
			return
		}
		allOver := true
		for _, tf := range live {
			if !tf.streamOver {
				allOver = false
			}
		}
		pending := func(tf *tailFile) int { return len(completeLines(tf.expected)) - len(tf.lines) }
		if allOver {
			if !w.waitUntil(c15Bound+w.allow(), func() bool { return w.closed }) {
				rc.Violate("liveness-close", "%s: every followed file was removed after its data had been read, but the batch channel was not closed within %v\nhistory:%s", w.mode(), c15Bound, w.history())
				return
			}
			for _, tf := range live {
				ref := refSplit(tf.expected)
				if len(tf.lines) != len(ref) && !w.bad {
					rc.Violate("lines-at-close", "%s: %s: %d lines delivered when the stream ended, %d were appended (last appended: %q)\nhistory:%s", w.mode(), tf.path, len(tf.lines), len(ref), lastOf(ref), w.history())
				}
			}
		} else {
			// quiescence: everything read, fewer than batchSize complete lines waiting for the next flush
			ok := w.waitUntil(c15Bound+w.allow(), func() bool {
				for _, tf := range live {
					if tf.streamOver || !tf.exists {
						continue
					}
					if !w.drained(tf) || pending(tf) >= w.batchSize {
						return false
					}
				}
				return true
			})
			if !ok && !w.bad {
				for _, tf := range live {
					if tf.streamOver || !tf.exists {
						continue
					}
					p, o := w.pos(tf.path)
					if !w.drained(tf) || pending(tf) >= w.batchSize {
						rc.Violate("liveness-delivery", "%s: %s: %v after the last operation the reader stands at byte %d of %d (opens %d, incarnation %d) and %d complete lines are undelivered (batch size %d)\nhistory:%s",
							w.mode(), tf.path, c15Bound, p, tf.size, o, tf.incarn, pending(tf), w.batchSize, w.history())
						return
					}
				}
			}
			// the time flush: after 300ms of silence one more line flushes everything that was waiting
			// (the batcher stamps a flush when its send has completed: behind a slow consumer that is later than the moment
			// the lines were read, so the silence is counted from the time the consumer can have drained everything)
			time.Sleep(300*time.Millisecond + w.allow())
			simrt.Yield("world:silence")
			marked := false
			for _, tf := range live {
				if tf.streamOver || !tf.exists {
					continue
				}
				w.appendTo(tf, []byte("END\n"))
				marked = true
			}
			if marked {
				ok := w.waitUntil(c15Bound+w.allow(), func() bool {
					for _, tf := range live {
						if tf.streamOver || !tf.exists {
							continue
						}
						if pending(tf) != 0 {
							return false
						}
					}
					return true
				})
				if !ok && !w.bad {
					for _, tf := range live {
						if !tf.streamOver && tf.exists && pending(tf) != 0 {
							rc.Violate("liveness-time-flush", "%s: %s: a line appended after 300ms of silence did not flush the batch within %v: %d complete lines undelivered\nhistory:%s", w.mode(), tf.path, c15Bound, pending(tf), w.history())
							break
						}
					}
				}
			}
			if w.closed {
				rc.Violate("closed-while-following", "%s: the batch channel was closed at fake t=%v although not every followed file had ended\nhistory:%s", w.mode(), w.closedAt, w.history())
			}
		}
		for _, tf := range live {
			if tf.f != nil {
				tf.f.Close()
			}
		}
		if w.cli {
			w.cliStatus(allOver, live)
			return
		}
		// status of the batcher
		wantErr := 0
		for _, tf := range w.files {
			if tf.missing {
				wantErr++
			}
		}
		if got := batcher.ReadErrors(); got != wantErr {
			rc.Violate("read-errors", "%s: ReadErrors() = %d, expected %d (paths that never existed under plain follow)\nhistory:%s", w.mode(), got, wantErr, w.history())
		}
		wantActive := 0
		for _, tf := range live {
			if !tf.streamOver {
				wantActive++
			}
		}
		if allOver {
			wantActive = 0
		}
		if !w.waitUntil(c15Bound+w.allow(), func() bool { return batcher.ActiveFileCount() == wantActive }) {
			rc.Violate("liveness-eof", "%s: ActiveFileCount() = %d %v after the last operation, expected %d (files removed under plain follow must end their stream; others stay active)\nhistory:%s", w.mode(), batcher.ActiveFileCount(), c15Bound, wantActive, w.history())
		}
	})
	if w.proc != nil {
		w.proc.end()
		os.Stdout, os.Stderr, logger.OsExit = realStdout, realStderr, realOsExit
		rc.Probes["cli-follow-runs"]++
		if w.proc.Done {
			rc.Probes["cli-follow-returned"]++
		}
	}
	rc.Absorb(s)
	for k, v := range fsnotify.SimStats() {
		rc.Probes["fsnotify-"+k] += v
	}
	nb, nl, reopened := 0, 0, 0
	for _, tf := range w.files {
		nb += tf.batches
		nl += len(tf.lines)
		if _, o := w.pos(tf.path); o > 1 {
			reopened++
		}
	}
	rc.Probes["tail-batches"] += int64(nb)
	rc.Probes["tail-lines"] += int64(nl)
	rc.Probes["tail-worlds"]++
	if reopened > 0 {
		rc.Probes["re-opened"]++
	}
	if w.closed {
		rc.Probes["tail-channel-closed"]++
	}
	rc.Sample = map[string]any{"mode": w.mode(), "history": w.ops, "batches": nb, "lines": nl}
	for _, p := range s.Panics {
		rc.Violate("panic", "%s", p)
	}
	if s.EndReason != "main-returned" {
		rc.Violate("HARNESS-world-"+s.EndReason, "the world's driver did not finish: %s\n%s", s.EndReason, s.Blocked)
	}
	rc.Nontrivial = s.MultiChoice > 0 && nl > 0
	rc.Logf("%s batches=%d lines=%d closed=%v ops=%d", w.mode(), nb, nl, w.closed, len(w.ops))
}

func lastOf(ls [][]byte) []byte {
	if len(ls) == 0 {
		return nil
	}
	return ls[len(ls)-1]
}

var cliSummaryRe = regexp.MustCompile(`Matched: ([\d,]+) / ([\d,]+)`)

// cliStatus (command-line mode): when every followed file has ended (plain follow) the command returns: exit status 0 if
// something was printed, 1 if nothing matched, 2 if a named path never existed; the summary counts every line of the streams.
// While a file is still followed the command must not have returned.
func (w *c15bWorld) cliStatus(allOver bool, live []*tailFile) {
	rc := w.rc
	if !allOver {
		if w.proc.Done {
			rc.Violate("closed-while-following", "%s: the command returned (exit %d) at fake t=%v although not every followed file had ended\nhistory:%s", w.mode(), w.proc.Res.Exit, w.closedAt, w.history())
		}
		return
	}
	if !w.proc.Done {
		return // reported as liveness-close above
	}
	total, missing := 0, 0
	for _, tf := range w.files {
		if tf.missing {
			missing++
			continue
		}
		total += len(refSplit(tf.expected))
	}
	want := 0
	switch {
	case missing > 0:
		want = 2
	case total == 0:
		want = 1
	}
	if w.proc.Res.Exit != want {
		rc.Violate("cli-follow-exit", "%s: exit status %d, expected %d (%d lines in the followed streams, %d paths that never existed)\nhistory:%s", w.mode(), w.proc.Res.Exit, want, total, missing, w.history())
	}
	errOut, _ := os.ReadFile(w.proc.ErrName)
	m := cliSummaryRe.FindSubmatch(errOut)
	if m == nil {
		rc.Violate("cli-follow-summary", "%s: no `Matched: M / R` summary on stderr: %q", w.mode(), errOut)
		return
	}
	mm, _ := strconv.Atoi(strings.ReplaceAll(string(m[1]), ",", ""))
	rr, _ := strconv.Atoi(strings.ReplaceAll(string(m[2]), ",", ""))
	if mm != total || rr != total {
		rc.Violate("cli-follow-summary", "%s: summary says Matched: %d / %d, the followed streams hold %d lines\nhistory:%s", w.mode(), mm, rr, total, w.history())
	}
}
