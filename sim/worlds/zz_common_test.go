package main

// Common harness of the simulated worlds. These files are copied into the root package of the
// instrumented scratch copy of rare (package main, so that they can call cliMain) and compiled
// into one test binary that the driver (/verif/bin/check) fans out over seeds.

import (
	"bufio"
	"bytes"
	"compress/gzip"
	"encoding/json"
	"fmt"
	"os"
	"path/filepath"
	"sort"
	"strconv"
	"strings"
	"testing"
	"time"

	"simrt"
)

// Violation is one failed oracle or monitor.
type Violation struct {
	Class string `json:"class"` // property id + monitor/oracle name; shrinking preserves it
	Msg   string `json:"msg"`
}

// RunCtx is the context of one simulated run (one seed).
type RunCtx struct {
	T      *testing.T
	Prop   string
	Index  uint64
	Seed   uint64
	Tape   *simrt.Tape
	Dir    string
	Mode   int
	Faults bool // fault-injecting sub-batch (odd run indices); even indices are fault-free
	Trace  bool
	Tier   string

	Viol []Violation

	Steps      int
	Multi      int
	Bubbles    int
	SimNanos   int64
	Hash       uint64
	Probes     map[string]int64
	Fired      map[string]int64
	EndReasons map[string]int
	TraceLog   []string
	Sample     any
	Nontrivial bool
	Det        []string // extra deterministic event log lines (compared by the determinism self-check)
	RaceFlag   bool     // the run's sub-test was failed by the race detector (leg B)
	Cases      int      // worlds that run several small cases per index report how many (0 = one)
	CaseHashes []string // hashes of the distinct non-trivial cases of this index
}

func (rc *RunCtx) Violate(class, format string, args ...any) {
	msg := fmt.Sprintf(format, args...)
	if len(msg) > 4000 {
		msg = msg[:4000] + "…"
	}
	rc.Viol = append(rc.Viol, Violation{Class: rc.Prop + "/" + class, Msg: msg})
}

func (rc *RunCtx) Logf(format string, args ...any) {
	rc.Det = append(rc.Det, fmt.Sprintf(format, args...))
}

// NewSim prepares a bubble with the run's mode and trace setting.
func (rc *RunCtx) NewSim(opts simrt.Opts) *simrt.Sim {
	opts.Mode = rc.Mode
	opts.Trace = rc.Trace
	return simrt.NewSim(rc.Tape, opts)
}

// Absorb accumulates the statistics of a finished bubble.
func (rc *RunCtx) Absorb(s *simrt.Sim) {
	rc.Bubbles++
	rc.Steps += s.Steps
	rc.Multi += s.MultiChoice
	rc.SimNanos += int64(s.SimElapsed)
	rc.Hash = rc.Hash*0x100000001b3 ^ s.Hash
	for k, v := range s.Probes() {
		rc.Probes[k] += v
	}
	for k, v := range s.FS.Fired {
		rc.Fired[k] += v
	}
	rc.EndReasons[s.EndReason]++
	if rc.Trace {
		rc.TraceLog = append(rc.TraceLog, fmt.Sprintf("--- bubble %d: end=%s steps=%d simulated=%v", rc.Bubbles, s.EndReason, s.Steps, s.SimElapsed))
		rc.TraceLog = append(rc.TraceLog, s.TraceLog...)
	}
	rc.Logf("bubble %d end=%s steps=%d hash=%x sim=%d", rc.Bubbles, s.EndReason, s.Steps, s.Hash, int64(s.SimElapsed))
}

// StdEnd applies the monitors common to every terminating world: the simulated main returned, no
// simulated goroutine panicked. class is the violation class prefix for termination problems.
func (rc *RunCtx) StdEnd(s *simrt.Sim, class string) bool {
	ok := true
	for _, p := range s.Panics {
		rc.Violate(class+"-panic", "%s", p)
		ok = false
	}
	if s.EndReason != "main-returned" {
		rc.Violate(class+"-"+s.EndReason, "run did not terminate: %s after %d steps, %v simulated\n%s", s.EndReason, s.Steps, s.SimElapsed, s.Blocked)
		ok = false
	}
	return ok
}

type worldFunc func(rc *RunCtx)

var worlds = map[string]worldFunc{}

// RunResult is one line of the results file.
type RunResult struct {
	Prop       string           `json:"prop"`
	Index      uint64           `json:"index"`
	Seed       uint64           `json:"seed"`
	Faults     bool             `json:"faults"`
	Mode       int              `json:"mode"`
	Viol       []Violation      `json:"viol,omitempty"`
	Steps      int              `json:"steps"`
	Multi      int              `json:"multi"`
	Bubbles    int              `json:"bubbles"`
	SimNanos   int64            `json:"sim_ns"`
	Hash       string           `json:"hash"`
	Probes     map[string]int64 `json:"probes,omitempty"`
	Fired      map[string]int64 `json:"fired,omitempty"`
	EndReasons map[string]int   `json:"end,omitempty"`
	Sample     any              `json:"sample,omitempty"`
	Nontrivial bool             `json:"nontrivial"`
	WallMicros int64            `json:"wall_us"`
	DetHash    string           `json:"det"`
	TapeLen    [3]int           `json:"tape_len"`
	RaceFlag   bool             `json:"race_flag,omitempty"`
	RaceLogOff int64            `json:"race_log_off,omitempty"`
	Cases      int              `json:"cases,omitempty"`
	CaseHashes []string         `json:"case_hashes,omitempty"`
}

// ReplayFile is what a violation is reported as.
type ReplayFile struct {
	Property string      `json:"property"`
	Index    uint64      `json:"index"`
	Seed     uint64      `json:"seed"`
	Faults   bool        `json:"faults"`
	Mode     int         `json:"mode"`
	Tier     string      `json:"tier"`
	Streams  [3][]uint32 `json:"streams"` // workload, faults, schedule (minimised)
	Class    string      `json:"class"`
	Message  string      `json:"message"`
	Workload any         `json:"workload,omitempty"`
	Fired    any         `json:"faults_fired,omitempty"`
	Trace    []string    `json:"trace,omitempty"`
	Shrink   string      `json:"shrink,omitempty"`
	SiteHash string      `json:"site_table_hash,omitempty"`
	// History-dependent violations (state that survives from one simulated run to the next inside one OS process, e.g. a
	// process-wide cache): the replay first executes the runs PrefixFrom..Index-1 of batch Base, then this run.
	PrefixFrom *uint64 `json:"prefix_from,omitempty"`
	Base       uint64  `json:"base,omitempty"`
}

var baseDir string
var origWD string

func runOne(t *testing.T, prop string, index, seed uint64, tape *simrt.Tape, mode int, faults, trace bool) *RunCtx {
	w := worlds[prop]
	if w == nil {
		panic("no world for " + prop)
	}
	simrt.ResetPools() // every run starts like a fresh process as far as recycled objects go
	dir := filepath.Join(baseDir, "run")
	os.RemoveAll(dir)
	if err := os.MkdirAll(dir, 0o755); err != nil {
		panic(err)
	}
	if err := os.Chdir(dir); err != nil {
		panic(err)
	}
	rc := &RunCtx{T: t, Prop: prop, Index: index, Seed: seed, Tape: tape, Dir: dir, Mode: mode, Faults: faults, Trace: trace,
		Tier: os.Getenv("SIM_TIER"), Probes: map[string]int64{}, Fired: map[string]int64{}, EndReasons: map[string]int{}}
	// every run gets its own sub-test T: a T that failed (the race detector fails it) would stop later
	// synctest.Test calls from running
	t.Run("r", func(st *testing.T) {
		rc.T = st
		defer func() {
			if r := recover(); r != nil {
				// a panic of the world itself (outside any bubble) is harness trouble unless the world turned it
				// into a violation; report loudly
				rc.Violate("HARNESS-panic", "world panicked outside a bubble: %v", r)
			}
		}()
		w(rc)
		rc.RaceFlag = st.Failed()
	})
	os.Chdir(origWD)
	return rc
}

func (rc *RunCtx) result(wall time.Duration) *RunResult {
	h := uint64(1469598103934665603)
	for _, l := range rc.Det {
		for i := 0; i < len(l); i++ {
			h = (h ^ uint64(l[i])) * 0x100000001b3
		}
		h = (h ^ '\n') * 0x100000001b3
	}
	for _, v := range rc.Viol {
		for i := 0; i < len(v.Class); i++ {
			h = (h ^ uint64(v.Class[i])) * 0x100000001b3
		}
	}
	return &RunResult{Prop: rc.Prop, Index: rc.Index, Seed: rc.Seed, Faults: rc.Faults, Mode: rc.Mode, Viol: rc.Viol, Steps: rc.Steps, Multi: rc.Multi,
		Bubbles: rc.Bubbles, SimNanos: rc.SimNanos, Hash: strconv.FormatUint(rc.Hash, 16), Probes: rc.Probes, Fired: rc.Fired, EndReasons: rc.EndReasons,
		Sample: rc.Sample, Nontrivial: rc.Nontrivial, WallMicros: wall.Microseconds(), DetHash: strconv.FormatUint(h, 16),
		TapeLen: [3]int{rc.Tape.Used(0), rc.Tape.Used(1), rc.Tape.Used(2)}, Cases: rc.Cases, CaseHashes: rc.CaseHashes, RaceFlag: rc.RaceFlag}
}

func envInt(name string, def int64) int64 {
	if v := os.Getenv(name); v != "" {
		n, err := strconv.ParseInt(v, 10, 64)
		if err != nil {
			panic(name + ": " + err.Error())
		}
		return n
	}
	return def
}

func hasClass(rc *RunCtx, class string) bool {
	for _, v := range rc.Viol {
		if v.Class == class {
			return true
		}
	}
	return false
}

// shrink minimises the three streams while the same violation class persists.
func shrink(t *testing.T, prop string, index, seed uint64, streams [3][]uint32, mode int, faults bool, class string, budget time.Duration) ([3][]uint32, string) {
	deadline := time.Now().Add(budget)
	tries, kept := 0, 0
	fails := func(c [3][]uint32) bool {
		tries++
		rc := runOne(t, prop, index, seed, simrt.ReplayTape(seed, c), mode, faults, false)
		return hasClass(rc, class)
	}
	cur := streams
	cp := func(c [3][]uint32) [3][]uint32 {
		var o [3][]uint32
		for i := range c {
			o[i] = append([]uint32(nil), c[i]...)
		}
		return o
	}
	improved := true
	for round := 0; improved && round < 8 && time.Now().Before(deadline); round++ {
		improved = false
		for _, st := range []int{2, 1, 0} {
			// 1. truncate tail (binary search on length)
			lo, hi := 0, len(cur[st])
			for lo < hi && time.Now().Before(deadline) {
				mid := (lo + hi) / 2
				c := cp(cur)
				c[st] = c[st][:mid]
				if fails(c) {
					hi = mid
					cur = c
					improved = true
					kept++
				} else {
					lo = mid + 1
				}
			}
			// 2. delete blocks
			for bs := len(cur[st]) / 2; bs >= 1 && time.Now().Before(deadline); bs /= 2 {
				for i := 0; i+bs <= len(cur[st]) && time.Now().Before(deadline); {
					c := cp(cur)
					c[st] = append(c[st][:i], c[st][i+bs:]...)
					if fails(c) {
						cur = c
						improved = true
						kept++
					} else {
						i += bs
					}
				}
			}
			// 3. zero blocks, then single entries
			for bs := len(cur[st]); bs >= 1 && time.Now().Before(deadline); bs /= 2 {
				for i := 0; i+bs <= len(cur[st]) && time.Now().Before(deadline); i += bs {
					allZero := true
					for _, v := range cur[st][i : i+bs] {
						if v != 0 {
							allZero = false
						}
					}
					if allZero {
						continue
					}
					c := cp(cur)
					for j := i; j < i+bs; j++ {
						c[st][j] = 0
					}
					if fails(c) {
						cur = c
						improved = true
						kept++
					}
				}
			}
			// 4. lower single values
			for i := 0; i < len(cur[st]) && time.Now().Before(deadline); i++ {
				for cur[st][i] > 0 && time.Now().Before(deadline) {
					c := cp(cur)
					c[st][i] = cur[st][i] / 2
					if fails(c) {
						cur = c
						improved = true
						kept++
						continue
					}
					c = cp(cur)
					c[st][i] = cur[st][i] - 1
					if fails(c) {
						cur = c
						improved = true
						kept++
						continue
					}
					break
				}
			}
		}
	}
	return cur, fmt.Sprintf("%d attempts, %d accepted; stream lengths %d/%d/%d -> %d/%d/%d", tries, kept,
		len(streams[0]), len(streams[1]), len(streams[2]), len(cur[0]), len(cur[1]), len(cur[2]))
}

func writeJSON(path string, v any) {
	b, err := json.MarshalIndent(v, "", " ")
	if err != nil {
		panic(err)
	}
	if err := os.WriteFile(path, b, 0o644); err != nil {
		panic(err)
	}
}

// TestSim is the entry point the driver invokes.
//
//	SIM_PROP=C01 SIM_BASE=<seed> SIM_FROM=a SIM_TO=b SIM_OUT=results.jsonl   run a range of indices
//	SIM_SHRINK=<index> SIM_REPLAY_OUT=file                                   minimise one failing index, write a replay file
//	SIM_REPLAY=file                                                          replay a file; SIM_OUT gets one result line
//	SIM_DET=1                                                                run every index twice and compare (determinism self-check)
func TestSim(t *testing.T) {
	prop := os.Getenv("SIM_PROP")
	if prop == "" {
		t.Skip("SIM_PROP not set")
	}
	var err error
	origWD, err = os.Getwd()
	if err != nil {
		panic(err)
	}
	baseDir, err = os.MkdirTemp(os.Getenv("SIM_SCRATCH"), "simw-")
	if err != nil {
		panic(err)
	}
	defer os.RemoveAll(baseDir)
	mode := int(envInt("SIM_MODE", simrt.ModeSched))
	base := uint64(envInt("SIM_BASE", 1))
	var out *bufio.Writer
	if p := os.Getenv("SIM_OUT"); p != "" {
		f, err := os.Create(p)
		if err != nil {
			panic(err)
		}
		defer f.Close()
		out = bufio.NewWriter(f)
		defer out.Flush()
	}
	emit := func(r *RunResult) {
		if out != nil {
			b, _ := json.Marshal(r)
			out.Write(b)
			out.WriteByte('\n')
		}
	}
	faultsOf := func(i uint64) bool { return i%2 == 1 }

	if rp := os.Getenv("SIM_REPLAY"); rp != "" {
		b, err := os.ReadFile(rp)
		if err != nil {
			panic(err)
		}
		var rf ReplayFile
		if err := json.Unmarshal(b, &rf); err != nil {
			panic(err)
		}
		if rf.Property != prop {
			panic("replay file is for " + rf.Property)
		}
		t0 := time.Now()
		if rf.PrefixFrom != nil {
			for i := *rf.PrefixFrom; i < rf.Index; i++ {
				sd := simrt.Mix(rf.Base, prop, i)
				runOne(t, prop, i, sd, simrt.NewTape(sd), rf.Mode, faultsOf(i), false)
			}
		}
		tape := simrt.ReplayTape(rf.Seed, rf.Streams)
		if rf.Mode == simrt.ModeFree {
			// leg B replays re-generate the run from its seed (the interleaving is the real scheduler's)
			tape = simrt.NewTape(rf.Seed)
		}
		rc := runOne(t, prop, rf.Index, rf.Seed, tape, rf.Mode, rf.Faults, rf.Mode != simrt.ModeFree)
		r := rc.result(time.Since(t0))
		emit(r)
		for _, v := range rc.Viol {
			fmt.Printf("REPLAY-VIOLATION class=%s\n%s\n", v.Class, v.Msg)
		}
		if len(rc.Viol) == 0 {
			fmt.Println("REPLAY-CLEAN")
		}
		if os.Getenv("SIM_PRINT_TRACE") != "" {
			for _, l := range rc.TraceLog {
				fmt.Println("TRACE", l)
			}
		}
		return
	}

	if os.Getenv("SIM_SHRINK") != "" {
		idx := uint64(envInt("SIM_SHRINK", 0))
		seed := simrt.Mix(base, prop, idx)
		if os.Getenv("SIM_PREFIX_FROM") != "" {
			// history-dependent violation: execute the earlier runs of the worker's chunk first, no shrinking
			from := uint64(envInt("SIM_PREFIX_FROM", 0))
			for i := from; i < idx; i++ {
				sd := simrt.Mix(base, prop, i)
				runOne(t, prop, i, sd, simrt.NewTape(sd), mode, faultsOf(i), false)
			}
			tape := simrt.NewTape(seed)
			rc := runOne(t, prop, idx, seed, tape, mode, faultsOf(idx), true)
			class := os.Getenv("SIM_SHRINK_CLASS")
			msg := ""
			for _, v := range rc.Viol {
				if v.Class == class {
					msg = v.Msg
					break
				}
			}
			if msg == "" {
				fmt.Println("SHRINK-NOREPRO (with the runs", from, "to", idx, "executed first)")
				return
			}
			tr := rc.TraceLog
			if len(tr) > 400 {
				tr = append(tr[:200:200], append([]string{fmt.Sprintf("… %d steps elided …", len(tr)-400)}, tr[len(tr)-200:]...)...)
			}
			note := fmt.Sprintf("not minimised: the violation depends on state left behind by earlier simulated runs in the same process; the replay executes runs %d..%d of batch %d first", from, idx-1, base)
			rf := ReplayFile{Property: prop, Index: idx, Seed: seed, Faults: faultsOf(idx), Mode: mode, Tier: os.Getenv("SIM_TIER"), Streams: tape.Snapshot(), Class: class, Message: msg,
				Workload: rc.Sample, Fired: rc.Fired, Trace: tr, Shrink: note, SiteHash: os.Getenv("SIM_SITEHASH"), PrefixFrom: &from, Base: base}
			writeJSON(os.Getenv("SIM_REPLAY_OUT"), rf)
			fmt.Printf("SHRINK-DONE class=%s %s\n", class, note)
			return
		}
		tape := simrt.NewTape(seed)
		rc := runOne(t, prop, idx, seed, tape, mode, faultsOf(idx), false)
		if len(rc.Viol) == 0 {
			fmt.Println("SHRINK-NOREPRO")
			return
		}
		class := rc.Viol[0].Class
		if c := os.Getenv("SIM_SHRINK_CLASS"); c != "" {
			if !hasClass(rc, c) {
				fmt.Println("SHRINK-NOREPRO class", c, "not among", rc.Viol)
				return
			}
			class = c
		}
		streams := tape.Snapshot()
		budget := time.Duration(envInt("SIM_SHRINK_SECONDS", 60)) * time.Second
		min, note := shrink(t, prop, idx, seed, streams, mode, faultsOf(idx), class, budget)
		// final traced run on the minimised tape
		rc2 := runOne(t, prop, idx, seed, simrt.ReplayTape(seed, min), mode, faultsOf(idx), true)
		msg := ""
		for _, v := range rc2.Viol {
			if v.Class == class {
				msg = v.Msg
				break
			}
		}
		if msg == "" {
			// should not happen: shrink only keeps failing candidates; fall back to the original
			min = streams
			rc2 = runOne(t, prop, idx, seed, simrt.ReplayTape(seed, min), mode, faultsOf(idx), true)
			for _, v := range rc2.Viol {
				if v.Class == class {
					msg = v.Msg
				}
			}
			note += " (minimised tape did not reproduce on the traced run; original tape kept)"
		}
		tr := rc2.TraceLog
		if len(tr) > 400 {
			tr = append(tr[:200:200], append([]string{fmt.Sprintf("… %d steps elided …", len(tr)-400)}, tr[len(tr)-200:]...)...)
		}
		rf := ReplayFile{Property: prop, Index: idx, Seed: seed, Faults: faultsOf(idx), Mode: mode, Tier: os.Getenv("SIM_TIER"), Streams: min, Class: class, Message: msg,
			Workload: rc2.Sample, Fired: rc2.Fired, Trace: tr, Shrink: note, SiteHash: os.Getenv("SIM_SITEHASH")}
		writeJSON(os.Getenv("SIM_REPLAY_OUT"), rf)
		fmt.Printf("SHRINK-DONE class=%s %s\n", class, note)
		return
	}

	from, to := uint64(envInt("SIM_FROM", 0)), uint64(envInt("SIM_TO", 1))
	det := os.Getenv("SIM_DET") != ""
	for i := from; i < to; i++ {
		seed := simrt.Mix(base, prop, i)
		t0 := time.Now()
		tape := simrt.NewTape(seed)
		rc := runOne(t, prop, i, seed, tape, mode, faultsOf(i), false)
		r := rc.result(time.Since(t0))
		if mode == simrt.ModeFree {
			// size of the race detector's log after this run: the driver attributes reports by offset
			if fs, _ := filepath.Glob(os.Getenv("SIM_OUT") + ".race*"); len(fs) > 0 {
				if st, err := os.Stat(fs[0]); err == nil {
					r.RaceLogOff = st.Size()
				}
			}
		}
		if det && mode == simrt.ModeSched {
			rc2 := runOne(t, prop, i, seed, simrt.NewTape(seed), mode, faultsOf(i), false)
			r2 := rc2.result(0)
			if r2.DetHash != r.DetHash || r2.Hash != r.Hash || r2.Steps != r.Steps {
				r.Viol = append(r.Viol, Violation{Class: "HARNESS-nondeterminism", Msg: fmt.Sprintf("same seed, same process, different run: det %s vs %s, sched %s vs %s, steps %d vs %d\nfirst: %s\nsecond: %s",
					r.DetHash, r2.DetHash, r.Hash, r2.Hash, r.Steps, r2.Steps, firstDiff(rc.Det, rc2.Det), "")})
			}
			// and once more from the recorded tape: replay must be a pure function of the tape
			rc3 := runOne(t, prop, i, seed, simrt.ReplayTape(seed, tape.Snapshot()), mode, faultsOf(i), false)
			r3 := rc3.result(0)
			if r3.DetHash != r.DetHash || r3.Hash != r.Hash {
				r.Viol = append(r.Viol, Violation{Class: "HARNESS-replay-divergence", Msg: fmt.Sprintf("replaying the recorded tape gave a different run: %s", firstDiff(rc.Det, rc3.Det))})
			}
		}
		emit(r)
	}
}

func firstDiff(a, b []string) string {
	for i := 0; i < len(a) && i < len(b); i++ {
		if a[i] != b[i] {
			return fmt.Sprintf("line %d: %q vs %q", i, a[i], b[i])
		}
	}
	return fmt.Sprintf("lengths %d vs %d", len(a), len(b))
}

// ---------- shared reference pieces ----------

// refSplit is the reference line splitter of C04: segments between '\n', one trailing '\r' removed from
// newline-terminated segments only, a final unterminated non-empty segment is a line.
func refSplit(data []byte) [][]byte {
	var out [][]byte
	for len(data) > 0 {
		i := bytes.IndexByte(data, '\n')
		if i < 0 {
			out = append(out, append([]byte(nil), data...))
			break
		}
		seg := data[:i]
		if len(seg) > 0 && seg[len(seg)-1] == '\r' {
			seg = seg[:len(seg)-1]
		}
		out = append(out, append([]byte(nil), seg...))
		data = data[i+1:]
	}
	return out
}

func sortedKeys[V any](m map[string]V) []string {
	ks := make([]string, 0, len(m))
	for k := range m {
		ks = append(ks, k)
	}
	sort.Strings(ks)
	return ks
}

func clip(s string, n int) string {
	if len(s) > n {
		return s[:n] + "…"
	}
	return s
}

func qlist(xs []string, n int) string {
	var sb strings.Builder
	for i, x := range xs {
		if i >= n {
			fmt.Fprintf(&sb, " …(%d more)", len(xs)-n)
			break
		}
		fmt.Fprintf(&sb, " %q", x)
	}
	return sb.String()
}

// gzMembers compresses data as a gzip file of len(cuts)+1 members (RFC 1952: a gzip file is a series of members;
// gzip(1) and Go's gzip.Reader deliver their concatenation). cuts are byte offsets into data, ascending.
func gzMembers(data []byte, cuts []int) []byte {
	var out bytes.Buffer
	prev := 0
	for _, c := range append(append([]int{}, cuts...), len(data)) {
		if c < prev {
			c = prev
		}
		if c > len(data) {
			c = len(data)
		}
		zw := gzip.NewWriter(&out)
		zw.Write(data[prev:c])
		zw.Close()
		prev = c
	}
	return out.Bytes()
}

// gzCuts draws 0-2 member boundaries for a gzip file (mostly none).
func gzCuts(t interface{ W(int) int }, n int) []int {
	if n < 2 || t.W(3) != 0 {
		return nil
	}
	a := 1 + t.W(n-1)
	if t.W(2) == 0 {
		return []int{a}
	}
	b := a + t.W(n-a+1)
	return []int{a, b}
}
