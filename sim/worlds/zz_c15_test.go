package main

// C15 world: the real follow readers (notify.go / poller.go, instrumented; os.Open/Stat/*os.File
// through the fs seam onto real scratch files; fsnotify replaced by the simulator's stub; the
// 250ms poll delay on the fake clock) read by a simulated reader goroutine, while a simulated
// writer client executes a drawn history of append / pause / remove-after-drain / re-create.
//
// Safety at every Read return: what was delivered so far is a prefix of what was appended after
// the start position. Bounded liveness after the last operation: within 10 simulated seconds
// everything appended was delivered (plain follow after a final remove: io.EOF).

import (
	"bytes"
	"fmt"
	"io"
	"os"
	"time"

	"github.com/fsnotify/fsnotify"

	"rare/pkg/followreader"
	"simrt"
)

type c15World struct {
	rc     *RunCtx
	s      *simrt.Sim
	path   string
	reopen bool
	poll   bool
	tail   bool

	expected    []byte // bytes appended after the start position, all incarnations, in order
	delivered   []byte
	incDeliv    int // bytes delivered from the current incarnation
	incWritten  int // bytes written to the current incarnation (after the start position)
	fileExists  bool
	ready       bool // reader constructed (and drained)
	readerDone  bool
	readerEOF   bool
	eofAt       time.Duration
	reads       int
	tok         int
	ops         []string
	bad         bool
	rotations   int
	armedOp     string // an append is due right after the reader's next system call of this kind on the path
	armedN      int
	armedRemove bool // the empty re-created file is removed right after the reader's next stat of the path
	streamOver  bool // plain follow: the file was removed after its data was delivered; the stream must end
}

func (w *c15World) chunk(n int) []byte {
	var b bytes.Buffer
	for b.Len() < n {
		w.tok++
		fmt.Fprintf(&b, "%d:", w.tok)
		if w.rc.Tape.WBool(1, 3) {
			b.WriteByte('\n')
		}
	}
	return b.Bytes()[:n]
}

func (w *c15World) opf(f string, a ...any) {
	w.ops = append(w.ops, fmt.Sprintf("t=%v ", w.s.Now())+fmt.Sprintf(f, a...))
}

func (w *c15World) history() string {
	out := ""
	for _, o := range w.ops {
		out += "\n  " + o
	}
	return out
}

func (w *c15World) mode() string {
	return fmt.Sprintf("poll=%v reopen=%v tail=%v", w.poll, w.reopen, w.tail)
}

// reader is the simulated consumer of the follow reader.
func (w *c15World) reader(initial int) {
	t := w.rc.Tape
	r, err := followreader.New(w.path, w.reopen, w.poll)
	if err != nil {
		w.rc.Violate("open", "followreader.New(%s) on an existing file failed: %v", w.mode(), err)
		w.bad, w.ready, w.readerDone = true, true, true
		return
	}
	if w.tail {
		if err := r.Drain(); err != nil {
			w.rc.Violate("drain", "Drain failed: %v", err)
		}
	}
	w.ready = true
	simrt.Yield("world:reader-ready")
	big := t.FBool(1, 8)
	for {
		size := 1 + t.F(64)
		if big {
			size = 4096
		}
		buf := make([]byte, size)
		n, err := r.Read(buf)
		simrt.Yield("world:reader-read")
		w.reads++
		if n > 0 {
			got := buf[:n]
			off := len(w.delivered)
			if off+n > len(w.expected) || !bytes.Equal(w.expected[off:off+n], got) {
				if !w.bad {
					w.bad = true
					kind := "loss-or-reorder"
					if bytes.Contains(w.delivered, got) || (off >= n && bytes.Equal(w.delivered[off-n:], got)) {
						kind = "duplicate"
					}
					want := w.expected[off:]
					if len(want) > 60 {
						want = want[:60]
					}
					w.rc.Violate("not-a-prefix-"+kind, "%s: Read #%d at fake t=%v returned %q after %d delivered bytes; the appended stream continues with %q (%d bytes appended so far)\nhistory:%s",
						w.mode(), w.reads, w.s.Now(), got, off, want, len(w.expected), w.history())
				}
			}
			w.delivered = append(w.delivered, got...)
			w.incDeliv += n
		}
		if err != nil {
			w.readerDone = true
			if err == io.EOF {
				w.readerEOF = true
				w.eofAt = w.s.Now()
				if w.fileExists && !w.streamOver {
					w.rc.Violate("eof-while-file-exists", "%s: Read returned io.EOF at fake t=%v although the file exists\nhistory:%s", w.mode(), w.s.Now(), w.history())
				} else if w.reopen {
					w.rc.Violate("eof-in-reopen-mode", "%s: Read returned io.EOF at fake t=%v in re-open follow mode\nhistory:%s", w.mode(), w.s.Now(), w.history())
				}
			} else {
				w.rc.Violate("read-error", "%s: Read returned error %v at fake t=%v\nhistory:%s", w.mode(), err, w.s.Now(), w.history())
			}
			return
		}
		if n == 0 {
			w.rc.Violate("zero-read", "%s: Read returned (0, nil)", w.mode())
			w.readerDone = true
			return
		}
		if t.FBool(1, 6) {
			d := time.Duration(1+t.F(200)) * time.Millisecond
			time.Sleep(d)
			simrt.Yield("world:reader-latency")
		}
	}
}

// waitUntil polls cond every 50ms of fake time for at most limit.
func (w *c15World) waitUntil(limit time.Duration, cond func() bool) bool {
	for el := time.Duration(0); el < limit; el += 50 * time.Millisecond {
		if cond() {
			return true
		}
		time.Sleep(50 * time.Millisecond)
		simrt.Yield("world:wait")
	}
	return cond()
}

func (w *c15World) appendBytes(f **os.File, n int, split bool) {
	if *f == nil {
		h, err := os.OpenFile(w.path, os.O_APPEND|os.O_WRONLY, 0o644)
		if err != nil {
			panic(err)
		}
		*f = h
	}
	data := w.chunk(n)
	parts := [][]byte{data}
	if split && n > 1 {
		k := 1 + w.rc.Tape.W(n-1)
		parts = [][]byte{data[:k], data[k:]}
	}
	for _, p := range parts {
		// the bytes exist in the file from here on: account them before the reader can see them
		// (after a removal under plain follow the stream is over: bytes of a new file are not part of it)
		if !w.streamOver {
			w.expected = append(w.expected, p...)
		}
		w.incWritten += len(p)
		if _, err := (*f).Write(p); err != nil {
			panic(err)
		}
		w.opf("append %q", p)
		fsnotify.SimNotify(w.path, fsnotify.Write)
	}
	if w.rc.Tape.WBool(1, 3) {
		(*f).Close()
		*f = nil
	}
}

const c15Bound = 10 * time.Second

func init() {
	worlds["C15"] = func(rc *RunCtx) {
		if (rc.Index/2)%4 == 3 {
			// one run in four goes through batchers.TailFilesToChan (zz_c15b_test.go)
			c15BatchWorld(rc)
			return
		}
		t := rc.Tape
		fsnotify.SimReset()
		w := &c15World{rc: rc, path: "follow.log"}
		w.poll = t.WBool(1, 2)
		w.reopen = t.WBool(1, 2)
		w.tail = t.WBool(1, 3)
		nOps := t.WRange(1, 12)
		initial := 0
		if t.WBool(2, 3) {
			initial = t.W(60)
		}
		s := rc.NewSim(simrt.Opts{MaxSteps: 300000, IdleLimit: time.Hour})
		w.s = s
		plan := &simrt.ReadPlan{ErrAt: -1}
		if rc.Faults {
			plan.Chunk = t.FBool(2, 3)
			if t.FBool(1, 2) {
				plan.LatPermille = []int{100, 500}[t.F(2)]
				plan.LatMaxMs = []int{3, 120}[t.F(2)]
			}
		}
		s.FS.SetPlan(w.path, plan)
		// "another process" acting between two system calls of the reader
		s.FS.Hook = func(op, path string) {
			if w.armedRemove && op == "stat" && path == w.path && w.fileExists && !w.bad && w.ready && w.incWritten == 0 {
				// the (still empty) re-created file vanishes again between two system calls of the reader: it has just looked
				// at the path, its next step (an open, a second stat) finds nothing
				w.armedRemove = false
				w.fileExists = false
				s.RegisterRemove(w.path)
				if err := os.Remove(w.path); err != nil {
					panic(err)
				}
				w.opf("(right after the reader's stat call) remove the empty re-created file")
				fsnotify.SimNotify(w.path, fsnotify.Remove)
				rc.Fired["remove-between-syscalls"]++
				return
			}
			if w.armedOp == "" || op != w.armedOp || path != w.path || !w.fileExists || w.bad || !w.ready {
				return
			}
			w.armedOp = ""
			w.opf("(right after the reader's %s call)", op)
			var h *os.File
			w.appendBytes(&h, w.armedN, false)
			if h != nil {
				h.Close()
			}
			rc.Fired["append-between-syscalls"]++
		}
		s.Run(rc.T, func() {
			init := w.chunk(initial)
			if err := os.WriteFile(w.path, init, 0o644); err != nil {
				panic(err)
			}
			s.RegisterCreate(w.path, false)
			w.fileExists = true
			if !w.tail {
				w.expected = append(w.expected, init...)
				w.incWritten = len(init)
			}
			w.opf("initial content %d bytes", initial)
			simrt.Go("world:reader", func() { w.reader(initial) })
			simrt.Yield("world:spawned-reader")
			// the start position is defined once the reader is constructed (and drained)
			if !w.waitUntil(30*time.Second, func() bool { return w.ready }) {
				rc.Violate("reader-not-ready", "%s: the follow reader was not constructed within 30 simulated seconds", w.mode())
				return
			}
			var f *os.File
			ended := false
			for op := 0; op < nOps && !ended && !w.bad; op++ {
				k := t.W(10)
				switch {
				case k <= 4 && w.fileExists: // append
					w.appendBytes(&f, 1+t.W(40), t.WBool(1, 4))
				case k == 6 && t.WBool(1, 2):
					// a sibling in the same directory whose name contains the followed name is created, written, removed
					sib := []string{"x" + w.path, w.path + ".1", "old-" + w.path, w.path + "~"}[t.W(4)]
					if _, err := os.Lstat(sib); err != nil {
						if err := os.WriteFile(sib, []byte("not the followed file\n"), 0o644); err != nil {
							panic(err)
						}
						w.opf("a sibling file %s is created and written", sib)
						fsnotify.SimNotify(sib, fsnotify.Create)
						fsnotify.SimNotify(sib, fsnotify.Write)
					} else {
						os.Remove(sib)
						w.opf("the sibling file %s is removed", sib)
						fsnotify.SimNotify(sib, fsnotify.Remove)
					}
					rc.Fired["sibling-file-event"]++
				case k <= 6: // pause
					// (multiples of the 250ms poll period put the writer and the poller at the same fake instant, where the scheduler
					// decides who goes first, between any two of the poller's system calls)
					d := []time.Duration{time.Millisecond, 30 * time.Millisecond, 249 * time.Millisecond, 251 * time.Millisecond, 1300 * time.Millisecond, 3 * time.Second, 250 * time.Millisecond, 500 * time.Millisecond, 1250 * time.Millisecond, 200 * time.Millisecond, 50 * time.Millisecond}[t.W(11)]
					w.opf("pause %v", d)
					time.Sleep(d)
					simrt.Yield("world:pause")
				case k == 7 && w.fileExists: // remove after drain
					if !w.waitUntil(2*c15Bound, func() bool { return len(w.delivered) >= len(w.expected) || w.readerDone }) {
						rc.Violate("liveness-before-remove", "%s: %d of %d appended bytes were delivered %v after the last append (file in place)\nhistory:%s", w.mode(), len(w.delivered), len(w.expected), 2*c15Bound, w.history())
						ended = true
						break
					}
					if f != nil {
						f.Close()
						f = nil
					}
					w.fileExists = false
					if w.reopen && t.WBool(1, 3) {
						// rotation by rename: the path goes away, the old file lives on under another name (nobody writes to it any more)
						w.rotations++
						if err := os.Rename(w.path, fmt.Sprintf("%s.%d", w.path, w.rotations)); err != nil {
							panic(err)
						}
						w.opf("rename away (after %d delivered)", len(w.delivered))
						fsnotify.SimNotify(w.path, fsnotify.Rename)
						rc.Fired["rotated-by-rename"]++
						break
					}
					s.RegisterRemove(w.path)
					if err := os.Remove(w.path); err != nil {
						panic(err)
					}
					w.opf("remove (after %d delivered)", len(w.delivered))
					fsnotify.SimNotify(w.path, fsnotify.Remove)
					if !w.reopen {
						// plain follow must end the stream now, whatever happens to the path afterwards
						w.streamOver = true
						if t.WBool(1, 2) {
							ended = true
						}
					}
				case k >= 8 && w.fileExists: // append right after the reader's next stat/read/open on the path
					w.armedOp, w.armedN = []string{"stat", "read", "read", "open"}[t.W(4)], 1+t.W(20)
					w.opf("arm: append %d bytes right after the reader's next %s", w.armedN, w.armedOp)
					w.waitUntil(3*time.Second, func() bool { return w.armedOp == "" })
					w.armedOp = ""
				case k >= 8 && !w.fileExists && (w.reopen || w.streamOver): // re-create
					prev := w.incDeliv
					if w.streamOver {
						// a new file at the path of an ended plain follow: nothing of it may be delivered
						h, err := os.OpenFile(w.path, os.O_CREATE|os.O_EXCL|os.O_WRONLY|os.O_APPEND, 0o644)
						if err != nil {
							panic(err)
						}
						f = h
						w.fileExists = true
						c15Recreated(rc, s, w.path)
						w.opf("re-create (after the stream ended)")
						fsnotify.SimNotify(w.path, fsnotify.Create)
						continue
					}
					if w.poll && prev < 2 {
						// the poller can only tell a new file from the old one when it is shorter than what was delivered
						continue
					}
					opens := c15Opens(s, w.path) // before the file exists: the poller may notice it at this very instant
					h, err := os.OpenFile(w.path, os.O_CREATE|os.O_EXCL|os.O_WRONLY|os.O_APPEND, 0o644)
					if err != nil {
						panic(err)
					}
					f = h
					w.fileExists = true
					w.incDeliv, w.incWritten = 0, 0
					if c15Recreated(rc, s, w.path) {
						w.opf("re-create (the file system reuses the inode number of the removed file)")
					} else {
						w.opf("re-create")
					}
					fsnotify.SimNotify(w.path, fsnotify.Create)
					if w.reopen && t.WBool(1, 5) {
						// ... and gone again before anything was written to it, at the worst moment for the reader; the next
						// operations may re-create it once more
						w.armedRemove = true
						w.opf("arm: remove the empty file right after the reader's next stat")
						w.waitUntil(3*time.Second, func() bool { return !w.armedRemove })
						w.armedRemove = false
						if !w.fileExists {
							f = nil
							continue
						}
					}
					if w.poll {
						// keep the new file shorter than what was delivered until the poller has noticed it
						before := len(w.delivered)
						if t.WBool(3, 4) {
							w.appendBytes(&f, 1+t.W(prev-1), false)
						}
						if !w.waitUntil(2*c15Bound, func() bool { return c15Opens(s, w.path) > opens || len(w.delivered) > before }) {
							rc.Violate("liveness-reopen", "%s: the re-created file (shorter than the %d bytes delivered before) was not re-opened within %v\nhistory:%s", w.mode(), prev, 2*c15Bound, w.history())
							ended = true
						}
					} else if t.WBool(1, 2) {
						w.appendBytes(&f, 1+t.W(40), false)
					}
				}
			}
			if f != nil {
				f.Close()
			}
			w.opf("end of history")
			if w.bad {
				return
			}
			// bounded liveness once the history is over
			done := w.waitUntil(c15Bound, func() bool {
				if w.streamOver {
					return w.readerEOF && len(w.delivered) >= len(w.expected)
				}
				return len(w.delivered) >= len(w.expected)
			})
			if !done && !w.bad {
				if w.streamOver && len(w.delivered) >= len(w.expected) {
					rc.Violate("liveness-eof", "%s: the file was removed after its data had been delivered, but Read did not return io.EOF within %v\nhistory:%s", w.mode(), c15Bound, w.history())
				} else {
					rc.Violate("liveness-delivery", "%s: %d of %d appended bytes were delivered %v after the last operation (reader done=%v eof=%v)\nmissing: %q\nhistory:%s",
						w.mode(), len(w.delivered), len(w.expected), c15Bound, w.readerDone, w.readerEOF, clip(string(w.expected[len(w.delivered):]), 80), w.history())
				}
			}
			if len(w.delivered) > len(w.expected) && !w.bad {
				rc.Violate("not-a-prefix-duplicate", "%s: %d bytes delivered, only %d appended\nhistory:%s", w.mode(), len(w.delivered), len(w.expected), w.history())
			}
		})
		rc.Absorb(s)
		for k, v := range fsnotify.SimStats() {
			rc.Probes["fsnotify-"+k] += v
		}
		rc.Probes["reads"] += int64(w.reads)
		rc.Probes["fs-opens"] += int64(c15Opens(s, w.path))
		if c15Opens(s, w.path) > 1 {
			rc.Probes["re-opened"]++
		}
		rc.Sample = map[string]any{"mode": w.mode(), "initial": initial, "history": w.ops, "delivered": len(w.delivered), "appended": len(w.expected), "reads": w.reads}
		for _, p := range s.Panics {
			rc.Violate("panic", "%s", p)
		}
		if s.EndReason != "main-returned" {
			rc.Violate("HARNESS-world-"+s.EndReason, "the world's driver did not finish: %s\n%s", s.EndReason, s.Blocked)
		}
		rc.Nontrivial = s.MultiChoice > 0 && len(w.expected) > 0
		rc.Logf("%s delivered=%d expected=%d reads=%d eof=%v ops=%d", w.mode(), len(w.delivered), len(w.expected), w.reads, w.readerEOF, len(w.ops))
	}
}

// c15Recreated registers the file just created at path; the tape decides whether the file system hands it the
// inode number of the removed file (possible only when no handle on that one is open any more).
func c15Recreated(rc *RunCtx, s *simrt.Sim, path string) bool {
	reused := s.RegisterCreate(path, rc.Tape.WBool(1, 2))
	if reused {
		rc.Fired["inode-number-reused"]++
	}
	return reused
}

func c15Opens(s *simrt.Sim, path string) int {
	n := 0
	for _, e := range s.FS.Log {
		if e.Op == "open" && e.Path == path {
			n++
		}
	}
	return n
}
