package main

// C13 world (order-independence clauses): one scenario fixes a multiset of (key, count) and a sort
// mode; its variants change only what must not matter - the map-iteration salt, the schedule and
// worker count (arrival order at the aggregator), the division of lines among files, and the read
// latencies (how many 100ms renders happen before the data is complete, which drives the sticky
// state of the one sorter instance a command keeps). The sequence of row (and column) labels of the
// final snapshot must be identical in all variants; `S:reverse` must be the mirror image of `S`,
// and the documented spellings (`value` = `value:desc`, `X` = `X:asc`) must agree.

import (
	"fmt"
	"math/big"
	"regexp"
	"sort"
	"strconv"
	"strings"
	"time"
	_ "time/tzdata" // zones for the local-zone knob, whatever the host has installed

	"simrt"
)

// the process's local time zone is part of the environment: a scenario runs under a drawn one
var c13Zones = []string{"", "", "UTC", "America/New_York", "Europe/Berlin", "Australia/Lord_Howe", "Asia/Kolkata"}

var c13Pools = map[string][]string{
	"numbers": {"1", "1.0", "01", "1e0", "-0", "0", "9", "10", "1a", "2", "10.5", "-3", "abc", "nan", "Inf", "0x10", "007", "7", "1e3", "1000"},
	"names":   {"Monday", "mon", "Tue", "tues", "WED", "thursday", "Fri", "sat", "Sunday", "may", "Jan", "december", "Sept", "xyz", "10", "MON", "feb"},
	"dates":   {"2021-01-02", "2021-01-10", "2020-12-31", "01/02/2021", "notadate", "2021-02-01T10:00:00Z", "2021-01-02T03:04:05Z", "Jan-2-2021", "12/31/2020", "2021-1-3"},
	"text":    {"b", "B", "a", "Z", "é", "aa", "ab", "A", "_", "~", "GET", "get", "Get", "AB"},
}

var c13PoolNames = []string{"numbers", "names", "dates", "text"}

// integers beyond 2^53 (where float64 stops telling neighbours apart) next to other spellings of the same magnitudes
var c13BigNums = []string{"-9007199254740993", "-9007199254740992", "-9007199254740992.0", "9007199254740993", "9007199254740992", "9007199254740992.0",
	"9.007199254740992e15", "9223372036854775807", "9223372036854775808", "-9223372036854775808", "18446744073709551616", "1e308", "-1e308", "1e309", "123456789012345678901234567890"}

var c13Clusters = [][]string{
	{"-9007199254740993", "-9007199254740992", "-9007199254740992.0", "-9.007199254740992e15"},
	{"9007199254740993", "9007199254740992", "9007199254740992.0", "9.007199254740992e15"},
	{"9223372036854775807", "9223372036854775808", "9223372036854775806", "9.223372036854775807e18"},
	{"18446744073709551615", "18446744073709551616", "1.8446744073709551615e19"},
	{"-9223372036854775808", "-9223372036854775809", "-9.223372036854775808e18"},
	{"1", "1.0", "01", "1e0", "+1"},
	{"-0", "0", "0.0", "+0", "-0.0"},
}

// "clean" families: keys whose order under a sort mode is not in doubt, so that what the mode MEANS can be checked too
var c13Clean = map[string][]string{
	"ints":      {"-50", "-7", "0", "3", "9", "10", "11", "42", "100", "101", "999", "1000", "2500", "12345"},
	"decimals":  {"-2.5", "-0.5", "0.25", "1.5", "2", "10.75", "100.125", "99.5"},
	"weekdays":  {"Monday", "Tuesday", "Wednesday", "Thursday", "Friday", "Saturday"},
	"wkabbr":    {"mon", "tue", "wed", "thu", "fri", "sat"},
	"months":    {"January", "February", "March", "April", "May", "June", "July", "August", "September", "October", "November", "December"},
	"monabbr":   {"Jan", "Feb", "Mar", "Apr", "May", "Jun", "Jul", "Aug", "Sep", "Oct", "Nov", "Dec"},
	"iso":       {"2019-12-31", "2020-01-01", "2020-01-02", "2020-02-01", "2020-10-05", "2021-01-01", "2021-03-04", "2020-11-30"},
	"us":        {"12/31/2019", "01/01/2020", "01/02/2020", "02/01/2020", "10/05/2020", "01/01/2021", "03/04/2021", "11/30/2020"},
	"rfc3339":   {"2020-01-01T00:00:00Z", "2020-01-01T00:00:01Z", "2020-01-01T10:00:00Z", "2020-01-02T03:04:05Z", "2019-12-31T23:59:59Z", "2020-10-10T10:10:10Z"},
	"rfc3339ms": {"2020-01-01T00:00:00.250Z", "2020-01-01T00:00:00.750Z", "2020-01-01T00:00:00.500Z", "2020-01-01T00:00:01.100Z", "2019-12-31T23:59:59.900Z", "2020-01-01T00:00:00.125Z", "2020-01-01T00:00:01.050Z"},
	// zone-less timestamps around daylight-saving transitions (the hour 02:00-03:00 does not exist on 2024-03-10 in New York
	// and on 2024-03-31 in Berlin): their order is the order of the wall-clock readings, wherever the process runs
	"naive": {"2024-03-10T01:30:00", "2024-03-10T02:30:00", "2024-03-10T03:30:00", "2024-03-10T02:45:00", "2024-03-31T01:30:00", "2024-03-31T02:30:00", "2024-03-31T03:30:00", "2024-11-03T01:30:00", "2024-10-06T02:15:00"},
	"words": {"alpha", "Beta", "gamma", "delta", "Echo", "zulu", "_x", "~y", "Alpha", "beta"},
}

var c13CleanLayout = map[string]string{"iso": "2006-01-02", "us": "01/02/2006", "rfc3339": time.RFC3339, "rfc3339ms": time.RFC3339Nano, "naive": "2006-01-02T15:04:05"}

// which families a mode's meaning is decided for
var c13CleanModes = map[string][]string{
	"text":       {"ints", "decimals", "weekdays", "months", "iso", "us", "words", "monabbr"},
	"numeric":    {"ints", "decimals"},
	"contextual": {"weekdays", "wkabbr", "months", "monabbr"},
	"date":       {"iso", "us", "rfc3339", "rfc3339ms", "naive"},
	"value":      {"ints", "words", "iso", "weekdays"},
}

// c13Expected orders keys as the sort mode is documented to; counts are needed for `value` (must be distinct).
func c13Expected(keys []string, counts map[string]int, family, mode, mod string) []string {
	out := append([]string{}, keys...)
	rank := func(k string) float64 {
		switch mode {
		case "numeric":
			v, err := strconv.ParseFloat(k, 64)
			if err != nil {
				panic(err)
			}
			return v
		case "contextual":
			for i, n := range c13Clean[family] {
				if n == k {
					return float64(i)
				}
			}
			panic("not in family: " + k)
		case "date":
			tm, err := time.Parse(c13CleanLayout[family], k)
			if err != nil {
				panic(err)
			}
			return float64(tm.UnixNano()) / 1e6 // milliseconds: exact in a float64
		case "value":
			return -float64(counts[k]) // larger totals first
		}
		return 0
	}
	sort.SliceStable(out, func(i, j int) bool {
		if mode == "text" {
			return out[i] < out[j]
		}
		return rank(out[i]) < rank(out[j])
	})
	desc := mod == ":desc" || mod == ":reverse"
	if mode == "value" {
		desc = mod == ":asc" || mod == ":reverse"
	}
	if desc {
		out = c13Reverse(out)
	}
	return out
}

type c13Scenario struct {
	Cmd    string // histo, table, bars
	Sort   string // base sort name
	Mod    string // "", ":asc", ":desc", ":reverse"
	Keys   []string
	Counts []int
	Cols   []string // table: column keys
	Pool   string
	TopN   int // histo -n (0: show everything)
	// clean scenarios: rows and columns have their own family, sort mode and modifier
	Zone            string // the process's local time zone during the scenario ("" = the host's)
	RedExpr         string // reduce: --sort expression ("" = by group key)
	Clean           bool
	RowFam, ColFam  string
	ColSort, ColMod string
	Vals            []string // histo with an increment column: one line `key<TAB>value` per key (totals at the ends of int64)
	Repeat          bool     // tables: all copies of a row key fall into one cell (the same element arrives several times in a row)
}

func c13Gen(t *simrt.Tape, free bool) *c13Scenario {
	sc := &c13Scenario{}
	sc.Cmd = []string{"histo", "histo", "table", "bars", "heatmap", "spark", "bars2", "histo-large", "reduce", "reduce-large", "histo-inc"}[t.W(11)]
	if free {
		// leg B (real parallelism under the race detector): key sets large enough for any code that only goes parallel
		// above a size threshold
		sc.Cmd = []string{"reduce-large", "histo-large", "reduce-large", "table"}[t.W(4)]
	}
	sc.Sort = []string{"text", "numeric", "contextual", "date", "value"}[t.W(5)]
	sc.Mod = []string{"", "", ":asc", ":desc", ":reverse"}[t.W(5)]
	if sc.Cmd == "histo-inc" {
		// totals that are far apart (a comparator that subtracts them wraps around), sorted by value
		// (a table: the histogram does not draw rows whose total is not positive)
		sc.Cmd, sc.Sort, sc.Pool = "table", "value", "wide-totals"
		sc.Cols = []string{"c"}
		vals := []string{"-9000000000000000000", "-4611686018427387905", "-7", "1", "2", "4611686018427387904", "9000000000000000000", "9223372036854775807", "-9223372036854775807", "300"}
		for i := len(vals) - 1; i > 0; i-- {
			j := t.W(i + 1)
			vals[i], vals[j] = vals[j], vals[i]
		}
		n := t.WRange(3, 7)
		for i := 0; i < n; i++ {
			sc.Keys = append(sc.Keys, []string{"k1", "b", "A", "10", "zz", "Mon", "k2"}[i])
			sc.Counts = append(sc.Counts, 1)
		}
		sc.Vals = vals[:n]
		return sc
	}
	if sc.Cmd == "reduce-large" && !free && !t.WBool(1, 4) {
		sc.Cmd = "reduce" // the large kind is expensive: one scenario in forty
	}
	if sc.Cmd == "reduce" || sc.Cmd == "reduce-large" {
		// `rare reduce` orders its groups with the contextual sorter, by group key or by the value of a --sort expression
		// (equal values: by group key); --sort-reverse mirrors
		sc.Sort = "reduce"
		sc.RedExpr = []string{"", "", "{n}", "{bucket {n} 2}", "{0}"}[t.W(5)]
		if sc.Cmd == "reduce-large" {
			sc.Cmd = "reduce"
			n := t.WRange(1030, 1300)
			if free {
				n = c13LargeN(t)
			}
			for i := 0; i < n; i++ {
				sc.Keys = append(sc.Keys, fmt.Sprintf("g%04d", (i*7919)%n))
				sc.Counts = append(sc.Counts, 1+t.W(2))
			}
			sc.Pool = "synthetic-large"
			return sc
		}
	}
	if sc.Cmd != "histo-large" && sc.Cmd != "bars2" && sc.Cmd != "reduce" && t.WBool(1, 3) {
		// a clean scenario: the meaning of the mode is decided, rows and columns independently
		sc.Clean = true
		fams := c13CleanModes[sc.Sort]
		sc.RowFam = fams[t.W(len(fams))]
		sc.Pool = "clean:" + sc.RowFam
		pickN := func(fam string, n int) []string {
			src := append([]string{}, c13Clean[fam]...)
			for i := len(src) - 1; i > 0; i-- {
				j := t.W(i + 1)
				src[i], src[j] = src[j], src[i]
			}
			if n > len(src) {
				n = len(src)
			}
			return src[:n]
		}
		sc.Keys = pickN(sc.RowFam, t.WRange(2, 8))
		if sc.RowFam == "naive" {
			// wall-clock readings around daylight-saving transitions: run in a zone that has them
			sc.Zone = []string{"America/New_York", "Europe/Berlin", "Australia/Lord_Howe"}[t.W(3)]
			sc.Keys = pickN(sc.RowFam, t.WRange(5, 9))
		}
		// distinct counts (a permutation of 1..n): `value` has no ties to break
		for i := range sc.Keys {
			sc.Counts = append(sc.Counts, i+1)
		}
		for i := len(sc.Counts) - 1; i > 0; i-- {
			j := t.W(i + 1)
			sc.Counts[i], sc.Counts[j] = sc.Counts[j], sc.Counts[i]
		}
		if sc.Cmd == "table" || sc.Cmd == "heatmap" || sc.Cmd == "spark" {
			sc.ColSort = []string{"text", "numeric", "contextual", "date"}[t.W(4)]
			sc.ColMod = []string{"", "", ":asc", ":desc", ":reverse"}[t.W(5)]
			cf := c13CleanModes[sc.ColSort]
			sc.ColFam = cf[t.W(len(cf))]
			sc.Cols = pickN(sc.ColFam, t.WRange(2, 5))
		}
		return sc
	}
	// the pool follows the sort mode most of the time, so that the comparators see what they are made for
	switch {
	case t.WBool(1, 4):
		sc.Pool = c13PoolNames[t.W(4)]
	case sc.Sort == "numeric" || sc.Sort == "value":
		sc.Pool = "numbers"
	case sc.Sort == "contextual":
		sc.Pool = "names"
	case sc.Sort == "date":
		sc.Pool = "dates"
	default:
		sc.Pool = "text"
	}
	pool := append([]string{}, c13Pools[sc.Pool]...)
	var cluster []string
	if sc.Pool == "numbers" && t.WBool(1, 3) {
		// one or two whole clusters of spellings around a magnitude where integer and floating-point comparison part
		// ways, plus a few other numbers: a comparator that mixes the two is not an order there
		cluster = append(cluster, c13Clusters[t.W(len(c13Clusters))]...)
		if t.WBool(1, 3) {
			cluster = append(cluster, c13Clusters[t.W(len(c13Clusters))]...)
		}
		pool = append(pool, c13BigNums...)
	}
	if t.WBool(1, 5) {
		// mixture of two pools
		pool = append(pool, c13Pools[c13PoolNames[t.W(4)]]...)
	}
	pick := func(n int) []string {
		seen := map[string]bool{}
		var out []string
		// bounded: a replayed tape past its end returns 0 for ever
		for tries := 0; len(out) < n && tries < 4*n; tries++ {
			k := pool[t.W(len(pool))]
			if !seen[k] {
				seen[k] = true
				out = append(out, k)
			}
		}
		for _, k := range pool {
			if len(out) >= n {
				break
			}
			if !seen[k] {
				seen[k] = true
				out = append(out, k)
			}
		}
		return out
	}
	if sc.Cmd == "histo-large" {
		// many groups and a small -n: the top-N selection must not depend on map order either
		sc.Cmd = "histo"
		n := t.WRange(128, 220)
		if free {
			n = c13LargeN(t)
		}
		for i := 0; i < n; i++ {
			sc.Keys = append(sc.Keys, fmt.Sprintf("k%04d", i))
			sc.Counts = append(sc.Counts, 1+t.W(3))
		}
		sc.TopN = t.WRange(3, n/8)
		sc.Pool = "synthetic"
		return sc
	}
	sc.Keys = pick(t.WRange(2, 8))
	if len(cluster) > 0 {
		have := map[string]bool{}
		var ks []string
		for _, k := range append(cluster, sc.Keys...) {
			if !have[k] && len(ks) < 10 {
				have[k] = true
				ks = append(ks, k)
			}
		}
		sc.Keys = ks
		sc.Pool = "numbers+cluster"
	}
	for range sc.Keys {
		sc.Counts = append(sc.Counts, 1+t.W(3))
	}
	if sc.Cmd == "bars2" {
		// sub-keys: their order in the legend is kept sorted on insertion and must not depend on arrival
		sc.Cols = pick(t.WRange(2, 5))
		if t.WBool(1, 3) {
			// many sub-keys (an insertion routine may change strategy with the size of the list)
			sc.Cols = nil
			n := t.WRange(13, 30)
			for i := 0; i < n; i++ {
				sc.Cols = append(sc.Cols, fmt.Sprintf("s%02d", (i*17)%n))
			}
			for len(sc.Keys) < 3 {
				sc.Keys = append(sc.Keys, fmt.Sprintf("row%d", len(sc.Keys)))
				sc.Counts = append(sc.Counts, 1)
			}
			for i := range sc.Counts {
				sc.Counts[i] = n // every row has every sub-key once (see lines(): the sub-key index advances with the copy)
			}
		}
	}
	if sc.Cmd == "table" || sc.Cmd == "heatmap" || sc.Cmd == "spark" {
		sc.Cols = pick(t.WRange(2, 5))
		if t.WBool(1, 3) {
			// runs of one and the same (column, row) element, long enough to overtake other rows while they arrive
			sc.Repeat = true
			for i := range sc.Counts {
				sc.Counts[i] = 1 + t.W(6)
			}
		}
	}
	return sc
}

// c13LargeN: key sets just above the sizes at which code tends to switch strategy (a thousand, two thousand, four thousand)
func c13LargeN(t *simrt.Tape) int {
	switch t.W(6) {
	case 0, 1:
		return t.WRange(2050, 2400)
	case 2:
		return t.WRange(4100, 4300)
	}
	return t.WRange(1030, 1300)
}

func (sc *c13Scenario) lines() []c3Line {
	var out []c3Line
	for i, k := range sc.Keys {
		if sc.Vals != nil {
			out = append(out, c3Line{Raw: "c\t" + k + "\t" + sc.Vals[i]})
			continue
		}
		for c := 0; c < sc.Counts[i]; c++ {
			if len(sc.Cols) > 0 {
				col := sc.Cols[(i+c)%len(sc.Cols)]
				if sc.Repeat {
					col = sc.Cols[i%len(sc.Cols)]
				}
				out = append(out, c3Line{Raw: col + "\t" + k})
			} else {
				out = append(out, c3Line{Raw: k})
			}
		}
	}
	return out
}

// scenario builds the CLI scenario for a given sort spelling.
func (sc *c13Scenario) scenario(sortArg string, t *simrt.Tape, shuffle []int) *c3Scenario {
	ls := sc.lines()
	if shuffle != nil {
		sh := make([]c3Line, len(ls))
		for i, j := range shuffle {
			sh[i] = ls[j]
		}
		ls = sh
	}
	out := &c3Scenario{Kind: "c13-" + sc.Cmd, Lines: ls}
	common := []string{"--nocolor", "--noformat", "--notrim"}
	switch sc.Cmd {
	case "histo":
		out.Regex = `^(.*)$`
		out.Tpls = []c3Tpl{{{Grp: 1}}}
		n := "1000"
		if sc.TopN > 0 {
			n = fmt.Sprint(sc.TopN)
		}
		out.Flags = append(common, "histo", "-n", n, "--sort", sortArg)
	case "bars2":
		out.Regex = `^([^\t]*)\t([^\t]*)$`
		out.Tpls = []c3Tpl{{{Grp: 2}}, {{Grp: 1}}}
		out.Flags = append(append([]string{"--nounicode"}, common...), "bars", "--stacked", "--sort", sortArg)
	case "bars":
		out.Regex = `^(.*)$`
		out.Tpls = []c3Tpl{{{Grp: 1}}}
		out.Flags = append(common, "bars", "--sort", sortArg)
	case "reduce":
		out.Regex = `^(.*)$`
		out.Tpls = []c3Tpl{{{Grp: 1}}}
		out.Flags = append(common, "reduce", "-g", "{0}", "-a", "n={sumi {.} 1}", "--rows", "100000")
		if sc.RedExpr != "" {
			out.Flags = append(out.Flags, "--sort", sc.RedExpr)
		}
		if strings.HasSuffix(sortArg, ":reverse") || strings.HasSuffix(sortArg, ":desc") {
			out.Flags = append(out.Flags, "--sort-reverse")
		}
	case "table", "heatmap", "spark":
		out.Regex = `^([^\t]*)\t([^\t]*)$`
		out.Tpls = []c3Tpl{{{Grp: 1}}, {{Grp: 2}}}
		if sc.Vals != nil {
			out.Regex = `^([^\t]*)\t([^\t]*)\t(-?\d+)$`
			out.Tpls = []c3Tpl{{{Grp: 1}}, {{Grp: 2}}, {{Grp: 3}}}
		}
		colArg := sortArg
		if sc.Clean {
			colArg = sc.ColSort + sc.ColMod
		}
		out.Flags = append(common, sc.Cmd, "--num", "1000", "--cols", "1000", "--sort-rows", sortArg, "--sort-cols", colArg)
		if sc.Cmd == "spark" {
			out.Flags = append(out.Flags, "--notruncate")
		}
	}
	return out
}

var c13HistoLine = regexp.MustCompile(`^(.*?) {4,}(-?\d+) *$`)
var c13BarsLine = regexp.MustCompile(`^(.*?) {2,}\S* (\d+)$`)

// labels extracts the row labels (and for tables the column labels) of a snapshot.
func (sc *c13Scenario) labels(stdout string) (rows, cols []string, err error) {
	ls := strings.Split(stdout, "\n")
	var body []string
	for _, l := range ls {
		if strings.HasPrefix(l, "Matched: ") || strings.TrimSpace(l) == "" {
			continue
		}
		body = append(body, l)
	}
	switch sc.Cmd {
	case "histo":
		for _, l := range body {
			m := c13HistoLine.FindStringSubmatch(l)
			if m == nil {
				return nil, nil, fmt.Errorf("cannot parse histogram line %q", l)
			}
			rows = append(rows, m[1])
		}
	case "bars":
		for _, l := range body {
			m := c13BarsLine.FindStringSubmatch(l)
			if m == nil {
				return nil, nil, fmt.Errorf("cannot parse bar line %q", l)
			}
			rows = append(rows, m[1])
		}
	case "bars2":
		if len(body) == 0 {
			return nil, nil, nil
		}
		hdr := strings.Fields(body[0])
		for i := 1; i < len(hdr); i += 2 {
			cols = append(cols, hdr[i])
		}
		for _, l := range body[1:] {
			f := strings.Fields(l)
			if len(f) == 0 {
				return nil, nil, fmt.Errorf("cannot parse bar line %q", l)
			}
			rows = append(rows, f[0])
		}
	case "heatmap", "spark":
		// heatmap: legend line + compressed column header; spark: one header line. Only the row labels are
		// observable as text (columns are one cell wide), so only the row order is compared
		skip := 1
		if sc.Cmd == "heatmap" {
			skip = 2
		}
		if len(body) < skip {
			return nil, nil, nil
		}
		for _, l := range body[skip:] {
			f := strings.Fields(l)
			if len(f) == 0 {
				return nil, nil, fmt.Errorf("cannot parse %s line %q", sc.Cmd, l)
			}
			rows = append(rows, f[0])
		}
	case "reduce":
		// header row, then one row per group: the first cell is the group key
		for i, l := range body {
			if i == 0 {
				continue
			}
			f := strings.Fields(l)
			if len(f) == 0 {
				return nil, nil, fmt.Errorf("cannot parse reduce line %q", l)
			}
			rows = append(rows, f[0])
		}
	case "table":
		if len(body) == 0 {
			return nil, nil, nil
		}
		cols = strings.Fields(body[0])
		for _, l := range body[1:] {
			f := strings.Fields(l)
			if len(f) == 0 {
				return nil, nil, fmt.Errorf("cannot parse table line %q", l)
			}
			rows = append(rows, f[0])
		}
	}
	return rows, cols, nil
}

// c13Screens rebuilds the screen after every periodic render from the lines the program wrote to its multi-line terminal
// (simrt.TermLine): a periodic render runs under the output mutex, so its lines share one scheduler step and Held is set.
func c13Screens(term []simrt.TermEvent) []string {
	var screens []string
	screen := map[int]string{}
	max := -1
	flush := func() {
		var b strings.Builder
		for i := 0; i <= max; i++ {
			l := screen[i]
			if rateToken.MatchString(l) {
				continue // the status footer
			}
			b.WriteString(l)
			b.WriteByte('\n')
		}
		screens = append(screens, b.String())
	}
	open, step := false, -1
	for _, e := range term {
		if open && (!e.Held || e.Step != step) {
			flush()
			open = false
		}
		screen[e.Line] = e.Text
		if e.Line > max {
			max = e.Line
		}
		if e.Held {
			open, step = true, e.Step
		}
	}
	// (the last group is the final render or belongs to it: the final output is compared through stdout)
	return screens
}

// c13Consistent: every pair of labels of an intermediate screen that also occurs in the final order is shown in the same
// relative order.
func c13Consistent(frame, final []string) (string, string, bool) {
	pos := map[string]int{}
	for i, l := range final {
		pos[l] = i
	}
	last, lastLabel := -1, ""
	for _, l := range frame {
		p, ok := pos[l]
		if !ok {
			continue
		}
		if p < last {
			return lastLabel, l, false
		}
		last, lastLabel = p, l
	}
	return "", "", true
}

func c13Reverse(xs []string) []string {
	out := make([]string, len(xs))
	for i, x := range xs {
		out[len(xs)-1-i] = x
	}
	return out
}

func init() {
	worlds["C13"] = func(rc *RunCtx) {
		t := rc.Tape
		sc := c13Gen(t, rc.Mode == simrt.ModeFree)
		zone := c13Zones[t.W(len(c13Zones))]
		if sc.Zone != "" {
			zone = sc.Zone
		}
		if zone != "" {
			if loc, err := time.LoadLocation(zone); err == nil {
				old := time.Local
				time.Local = loc
				defer func() { time.Local = old }()
			}
		}
		if len(sc.Cols) > 0 || sc.Cmd == "reduce" {
			// table cells are parsed by whitespace: keep keys free of spaces (none of the pools has them)
			for _, k := range append(append([]string{}, sc.Keys...), sc.Cols...) {
				if strings.ContainsAny(k, " \t") {
					panic("key with space in table scenario")
				}
			}
		}
		sortArg := sc.Sort + sc.Mod
		// for the date comparator it matters whether all keys share one layout
		layout := func(k string) string {
			switch {
			case regexp.MustCompile(`^\d{4}-\d{2}-\d{2}$`).MatchString(k):
				return "iso-date"
			case regexp.MustCompile(`^\d{4}-\d{2}-\d{2}T\d{2}:\d{2}:\d{2}Z$`).MatchString(k):
				return "rfc3339"
			case regexp.MustCompile(`^\d{2}/\d{2}/\d{4}$`).MatchString(k):
				return "us-date"
			}
			return "other:" + k
		}
		keysKind := "one-layout"
		all := append(append([]string{}, sc.Keys...), sc.Cols...)
		for _, k := range all {
			if layout(k) != layout(all[0]) || strings.HasPrefix(layout(k), "other") {
				keysKind = "mixed"
			}
		}
		if sc.Clean {
			// one family, one layout per axis by construction: never the mixed-layout situation of the known finding
			keysKind = "clean:" + sc.RowFam
			if sc.ColFam != "" {
				keysKind += "/" + sc.ColFam
			}
		}
		desc := map[string]any{"cmd": sc.Cmd, "sort": sortArg, "pool": sc.Pool, "keys": sc.Keys, "counts": sc.Counts, "cols": sc.Cols, "local_zone": zone}
		if sc.Vals != nil {
			desc["totals"] = sc.Vals
		}
		if sc.Cmd == "reduce" {
			desc["sort_expression"] = sc.RedExpr
			if len(sc.Keys) > 40 {
				desc["keys"], desc["counts"] = fmt.Sprintf("%d synthetic groups", len(sc.Keys)), "1-2 each"
			}
		}
		if sc.Clean {
			desc["clean"] = true
			if len(sc.Cols) > 0 {
				desc["sort_cols"], desc["col_family"] = sc.ColSort+sc.ColMod, sc.ColFam
			}
		}
		rc.Sample = desc
		nLines := len(sc.lines())
		type run struct {
			v          *c3Variant
			rows, cols []string
			sortArg    string
		}
		var runs []run
		exec := func(sa string, v *c3Variant, shuffle []int) (run, bool) {
			cs := sc.scenario(sa, t, shuffle)
			// key-based sort modes: a pair of keys is ordered the same way in every render, whatever else is on the screen
			keyBased := sc.Sort != "value" && (sc.Sort != "reduce" || sc.RedExpr == "" || sc.RedExpr == "{0}")
			cs.RecordTerm = keyBased && len(sc.Keys) <= 40
			o := c3RunVariant(rc, cs, v)
			if !rc.StdEnd(o.Sim, "termination") {
				rc.Viol[len(rc.Viol)-1].Msg += fmt.Sprintf("\nvariant: %s\nscenario: %v", v, desc)
				return run{}, false
			}
			if o.Res.Exit != 0 && sa != strings.ToLower(sa) {
				// a spelling with capital letters that this tree does not accept: nothing to compare
				rc.Probes["capitalised-sort-name-rejected"]++
				return run{}, false
			}
			if o.Res.Exit != 0 {
				rc.Violate("HARNESS-exit", "exit %d for %v: %q", o.Res.Exit, desc, clip(string(o.Res.Stderr), 300))
				return run{}, false
			}
			rows, cols, err := sc.labels(o.Stdout)
			if err != nil {
				rc.Violate("HARNESS-parse", "%v\n%q\n%v", err, o.Stdout, desc)
				return run{}, false
			}
			wantRows := len(sc.Keys)
			if sc.TopN > 0 && sc.TopN < wantRows {
				wantRows = sc.TopN
			}
			if len(rows) != wantRows {
				rc.Violate("HARNESS-rows", "%d rows parsed, expected %d\n%q\n%v", len(rows), wantRows, o.Stdout, desc)
				return run{}, false
			}
			if cs.RecordTerm {
				for fi, screen := range c13Screens(o.Sim.Term) {
					frows, fcols, err := sc.labels(screen)
					if err != nil {
						rc.Probes["intermediate-screens-unparsed"]++
						continue
					}
					rc.Probes["intermediate-screens"]++
					if len(frows) >= 2 {
						rc.Probes["intermediate-screens-2+rows"]++
					}
					if x, y, ok := c13Consistent(frows, rows); !ok {
						rc.Violate("intermediate-order", "sort=%s keys=%s cmd=%s: intermediate render #%d shows row %q above %q, the final output of the same run shows them the other way round\n intermediate: %q\n final: %q\nvariant: %s\nscenario: %v",
							strings.ToLower(sa), keysKind, sc.Cmd, fi+1, x, y, frows, rows, v, desc)
						break
					}
					if sc.Cmd == "table" {
						if x, y, ok := c13Consistent(fcols, cols); !ok {
							rc.Violate("intermediate-order", "sort=%s keys=%s cmd=%s: intermediate render #%d shows column %q before %q, the final output of the same run shows them the other way round\n intermediate: %q\n final: %q\nvariant: %s\nscenario: %v",
								strings.ToLower(sa), keysKind, sc.Cmd, fi+1, x, y, fcols, cols, v, desc)
							break
						}
					}
				}
			}
			return run{v: v, rows: rows, cols: cols, sortArg: sa}, true
		}
		// keyStart[i]: index of the first line of key i in sc.lines()
		keyStart := make([]int, len(sc.Keys))
		for i, acc := 0, 0; i < len(sc.Keys); i++ {
			keyStart[i] = acc
			acc += sc.Counts[i]
		}
		nVar := t.WRange(4, 6)
		if len(sc.Keys) > 500 {
			nVar = 3
		}
		for i := 0; i < nVar; i++ {
			cs0 := &c3Scenario{Lines: make([]c3Line, nLines)}
			v := c3GenVariant(t, cs0, i == 0)
			v.Gz = make([]bool, len(v.Files)) // plain files only: decompression is not this world's subject
			if len(sc.Keys) > 500 {
				// more than a thousand rows: every intermediate render sorts and redraws all of them; keep the number of
				// renders small (no read latencies) so that the scenario stays affordable
				v.LatPm, v.LatMs = 0, 0
				v.YLatPm, v.YLatMs = 0, 0
			}
			// arrival order of lines is part of what must not matter
			var shuffle []int
			if i > 0 {
				shuffle = make([]int, nLines)
				for k := range shuffle {
					shuffle[k] = k
				}
				for k := nLines - 1; k > 0; k-- {
					j := t.W(k + 1)
					shuffle[k], shuffle[j] = shuffle[j], shuffle[k]
				}
				if t.WBool(1, 3) {
					// grouped arrival (a sorted log): the copies of a key stay together, only the order of the keys changes - the
					// last lines to arrive are then all the same element
					first := map[int]int{}
					for pos, li := range shuffle {
						k := sort.SearchInts(keyStart, li+1) - 1
						if _, ok := first[k]; !ok {
							first[k] = pos
						}
					}
					sort.SliceStable(shuffle, func(a, b int) bool {
						ka, kb := sort.SearchInts(keyStart, shuffle[a]+1)-1, sort.SearchInts(keyStart, shuffle[b]+1)-1
						return first[ka] < first[kb]
					})
				}
			}
			r, ok := exec(sortArg, v, shuffle)
			if !ok {
				return
			}
			runs = append(runs, r)
		}
		base := runs[0]
		for i, r := range runs[1:] {
			if strings.Join(r.rows, "\x00") != strings.Join(base.rows, "\x00") {
				rc.Violate("row-order", "sort=%s keys=%s cmd=%s: the same data is shown in different row orders:\n variant 0: %q\n variant %d: %q\nvariant 0: %s\nvariant %d: %s\nscenario: %v",
					sortArg, keysKind, sc.Cmd, base.rows, i+1, r.rows, base.v, i+1, r.v, desc)
				break
			}
			if strings.Join(r.cols, "\x00") != strings.Join(base.cols, "\x00") {
				rc.Violate("col-order", "sort=%s keys=%s cmd=%s: the same data is shown in different column orders:\n variant 0: %q\n variant %d: %q\nvariant 0: %s\nvariant %d: %s\nscenario: %v",
					sortArg, keysKind, sc.Cmd, base.cols, i+1, r.cols, base.v, i+1, r.v, desc)
				break
			}
		}
		if sc.Vals != nil && len(rc.Viol) == 0 {
			// distinct totals: `value` shows larger totals first (ascending with :asc and :reverse)
			idx := make([]int, len(sc.Keys))
			for i := range idx {
				idx[i] = i
			}
			val := func(i int) *big.Int { v, _ := new(big.Int).SetString(sc.Vals[i], 10); return v }
			sort.Slice(idx, func(a, b int) bool { return val(idx[a]).Cmp(val(idx[b])) > 0 })
			var want []string
			for _, i := range idx {
				want = append(want, sc.Keys[i])
			}
			if sc.Mod == ":asc" || sc.Mod == ":reverse" {
				want = c13Reverse(want)
			}
			if strings.Join(want, "\x00") != strings.Join(base.rows, "\x00") {
				rc.Violate("order-meaning", "cmd=table --sort-rows %s over row totals %v of keys %q: rows are shown as %q; by value the order is %q\nvariant: %s\nscenario: %v", sortArg, sc.Vals, sc.Keys, base.rows, want, base.v, desc)
			}
		}
		// what the mode means, for keys whose order under it is not in doubt
		if sc.Clean && len(rc.Viol) == 0 {
			counts := map[string]int{}
			for i, k := range sc.Keys {
				counts[k] = sc.Counts[i]
			}
			wantRows := c13Expected(sc.Keys, counts, sc.RowFam, sc.Sort, sc.Mod)
			if strings.Join(wantRows, "\x00") != strings.Join(base.rows, "\x00") {
				rc.Violate("order-meaning", "cmd=%s --sort(-rows) %s over %s keys: rows are shown as %q; %s order is %q\nvariant: %s\nscenario: %v", sc.Cmd, sortArg, sc.RowFam, base.rows, sc.Sort, wantRows, base.v, desc)
			}
			if sc.Cmd == "table" && len(rc.Viol) == 0 {
				var used []string
				seen := map[string]bool{}
				for _, l := range sc.lines() {
					c := strings.SplitN(l.Raw, "\t", 2)[0]
					if !seen[c] {
						seen[c] = true
						used = append(used, c)
					}
				}
				wantCols := c13Expected(used, nil, sc.ColFam, sc.ColSort, sc.ColMod)
				if strings.Join(wantCols, "\x00") != strings.Join(base.cols, "\x00") {
					rc.Violate("order-meaning", "cmd=%s --sort-cols %s over %s keys: columns are shown as %q; %s order is %q\nvariant: %s\nscenario: %v", sc.Cmd, sc.ColSort+sc.ColMod, sc.ColFam, base.cols, sc.ColSort, wantCols, base.v, desc)
				}
			}
			rc.Probes["clean-scenarios"]++
		}
		// relations between spellings, on the parameters of variant 0
		if len(rc.Viol) == 0 && sc.TopN == 0 && !sc.Clean { // with -n the reversed sort shows the other end, not a mirror
			rev := sc.Sort + ":reverse"
			same := ""
			switch {
			case sc.Mod == ":reverse":
				rev = sc.Sort
			case sc.Mod == ":asc" && sc.Sort == "value":
				rev = "value"
			case sc.Mod == ":asc":
				rev, same = sc.Sort+":desc", sc.Sort
			case sc.Mod == ":desc" && sc.Sort == "value":
				rev, same = "value:asc", "value"
			case sc.Mod == ":desc":
				rev = sc.Sort
			case sc.Sort == "value":
				same = "value:desc"
			default:
				same = sc.Sort + ":asc"
			}
			if r, ok := exec(rev, base.v, nil); ok {
				wantCols := c13Reverse(r.cols)
				if sc.Cmd == "bars2" {
					wantCols = r.cols // the legend's sub-key order is not governed by --sort
				}
				if strings.Join(c13Reverse(r.rows), "\x00") != strings.Join(base.rows, "\x00") || strings.Join(wantCols, "\x00") != strings.Join(base.cols, "\x00") {
					rc.Violate("reverse-not-mirror", "sort=%s keys=%s cmd=%s: `%s` shows rows %q cols %q, `%s` shows rows %q cols %q: not mirror images\nvariant: %s\nscenario: %v", sortArg, keysKind, sc.Cmd, sortArg, base.rows, base.cols, rev, r.rows, r.cols, base.v, desc)
				}
			}
			if same != "" && len(rc.Viol) == 0 {
				if r, ok := exec(same, base.v, nil); ok {
					if strings.Join(r.rows, "\x00") != strings.Join(base.rows, "\x00") || strings.Join(r.cols, "\x00") != strings.Join(base.cols, "\x00") {
						rc.Violate("spelling-differs", "sort=%s keys=%s cmd=%s: `%s` shows rows %q cols %q, the equivalent `%s` shows rows %q cols %q\nvariant: %s\nscenario: %v", sortArg, keysKind, sc.Cmd, sortArg, base.rows, base.cols, same, r.rows, r.cols, base.v, desc)
					}
				}
			}
		}
		// a sort name typed with capital letters, where the tree accepts it, is the same mode
		if len(rc.Viol) == 0 && sc.Sort != "reduce" && t.WBool(1, 3) {
			name := []string{strings.ToUpper(sc.Sort), strings.ToUpper(sc.Sort[:1]) + sc.Sort[1:]}[t.W(2)]
			if r, ok := exec(name+sc.Mod, base.v, nil); ok {
				rc.Probes["capitalised-sort-name-compared"]++
				if strings.Join(r.rows, "\x00") != strings.Join(base.rows, "\x00") || strings.Join(r.cols, "\x00") != strings.Join(base.cols, "\x00") {
					rc.Violate("spelling-differs", "sort=%s keys=%s cmd=%s: `%s` shows rows %q cols %q, the same mode typed as `%s` shows rows %q cols %q\nvariant: %s\nscenario: %v", sortArg, keysKind, sc.Cmd, sortArg, base.rows, base.cols, name+sc.Mod, r.rows, r.cols, base.v, desc)
				}
			}
		}
		multi := rc.Multi
		rc.Nontrivial = multi > 0
		rc.Probes["sort-"+sc.Sort]++
		rc.Probes["cmd-"+sc.Cmd]++
		rc.Logf("%s %s rows=%q cols=%q", sc.Cmd, sortArg, base.rows, base.cols)
	}
}
