package main

// C10 world: the pipeline of C01 with W workers sharing one compiled (optimised) expression, its
// context pools and - in the funcs-file family - functions loaded through the real funcfile loader;
// in the time family the fake clock advances between lines. Oracle: for every line the pipeline's
// key equals a sequential, un-optimised evaluation (funcs-file calls: of the inlined tree, built
// with builtins only); {time live}/{time delta} lie between the instant the line was read and the
// instant it was consumed and are not frozen; {time now} is the compile instant.

import (
	"bytes"
	"fmt"
	"os"
	"regexp"
	"sort"
	"strconv"
	"strings"
	"time"

	"rare/pkg/expressions"
	"rare/pkg/expressions/funcfile"
	"rare/pkg/expressions/funclib"
	"rare/pkg/logger"
	"simrt"
)

const (
	xLit = iota
	xGroup
	xKey
	xCall
)

type xNode struct {
	Kind int
	S    string
	N    int
	Args []*xNode
}

var xBare = regexp.MustCompile(`^[A-Za-z0-9_.:/-]+$`)

// arg prints the node as an argument inside braces.
func (n *xNode) arg() string {
	switch n.Kind {
	case xLit:
		if xBare.MatchString(n.S) {
			return n.S
		}
		return `"` + n.S + `"`
	case xGroup:
		return "{" + strconv.Itoa(n.N) + "}"
	case xKey:
		return "{" + n.S + "}"
	}
	parts := []string{n.S}
	for _, a := range n.Args {
		parts = append(parts, a.arg())
	}
	return "{" + strings.Join(parts, " ") + "}"
}

// top prints the node at the top level of a template.
func (n *xNode) top() string {
	if n.Kind == xLit {
		return n.S
	}
	return n.arg()
}

func xPrint(ns []*xNode) string {
	var sb strings.Builder
	for _, n := range ns {
		sb.WriteString(n.top())
	}
	return sb.String()
}

var xLits = []string{"0", "1", "2", "3", "-1", "7", "10", "0.5", "2.5", "GET", "x", "abc", "", "a b", "200", "404", "x y z", "p q"}
var xKeys = []string{"src", "line", "verb", "code", "path", "@"}
// @for: a random continuation expression is almost always constant-true and costs a million iterations per line;
// the range family draws @for with bounded conditions instead
var xExcluded = map[string]bool{"load": true, "lookup": true, "haskey": true, "color": true, "time": true, "@for": true}
var xScalar = []string{"sumi", "subi", "multi", "upper", "lower", "prefix", "suffix", "len", "eq", "neq", "if", "unless", "coalesce", "bucket", "substr", "not", "and", "or", "lt", "gt", "maxi", "mini", "isint", "select", "format", "like"}

type xGen struct {
	t      *simrt.Tape
	fns    []string // callable function names
	inBody bool
}

func (g *xGen) leaf() *xNode {
	t := g.t
	switch t.W(6) {
	case 0, 1:
		return &xNode{Kind: xLit, S: xLits[t.W(len(xLits))]}
	case 2, 3, 4:
		n := 3
		if g.inBody {
			n = 2
		}
		return &xNode{Kind: xGroup, N: t.W(n + 1)}
	default:
		return &xNode{Kind: xKey, S: xKeys[t.W(len(xKeys))]}
	}
}

func (g *xGen) node(depth int) *xNode {
	t := g.t
	if depth == 0 || t.W(5) < 2 {
		return g.leaf()
	}
	n := &xNode{Kind: xCall, S: g.fns[t.W(len(g.fns))]}
	ar := 1 + t.W(3)
	if t.W(8) == 0 {
		ar = 4
	}
	for i := 0; i < ar; i++ {
		n.Args = append(n.Args, g.node(depth-1))
	}
	if n.S == "format" && ar >= 2 && t.WBool(3, 4) {
		// a format string that really uses its arguments (one verb each)
		verbs := []string{"%s", "%s", "%v", "%5s", "%-3s", "%q"}
		f := ""
		for i := 1; i < ar; i++ {
			if i > 1 {
				f += []string{"-", ":", "|", "/"}[t.W(4)]
			}
			f += verbs[t.W(len(verbs))]
		}
		n.Args[0] = &xNode{Kind: xLit, S: f}
	}
	return n
}

func xClone(n *xNode) *xNode {
	c := *n
	c.Args = nil
	for _, a := range n.Args {
		c.Args = append(c.Args, xClone(a))
	}
	return &c
}

// xInline replaces calls to user functions by their bodies with {0},{1},.. bound to the call's arguments.
func xInline(n *xNode, defs map[string]*xNode) *xNode {
	switch n.Kind {
	case xCall:
		args := make([]*xNode, len(n.Args))
		for i, a := range n.Args {
			args[i] = xInline(a, defs)
		}
		if body, ok := defs[n.S]; ok {
			return xSubst(xInline(body, defs), args)
		}
		return &xNode{Kind: xCall, S: n.S, Args: args}
	default:
		return xClone(n)
	}
}

func xSubst(body *xNode, args []*xNode) *xNode {
	switch body.Kind {
	case xGroup:
		if body.N < len(args) {
			return xClone(args[body.N])
		}
		return &xNode{Kind: xLit, S: ""}
	case xCall:
		c := &xNode{Kind: xCall, S: body.S}
		for _, a := range body.Args {
			c.Args = append(c.Args, xSubst(a, args))
		}
		return c
	}
	return xClone(body)
}

// xEmptyCtx is the all-empty context (what the optimiser's probe sees).
type xEmptyCtx struct{}

func (xEmptyCtx) GetMatch(int) string  { return "" }
func (xEmptyCtx) GetKey(string) string { return "" }

type xEval struct {
	kb  *expressions.CompiledKeyBuilder
	err string
}

func xCompile(b *expressions.KeyBuilder, tpl string) (ev xEval) {
	defer func() {
		if r := recover(); r != nil {
			ev.err = fmt.Sprint("panic at compile time: ", r)
		}
	}()
	kb, errs := b.Compile(tpl)
	if errs != nil {
		ev.err = "compile error: " + errs.Error()
		return
	}
	ev.kb = kb
	return
}

func xBuild(kb *expressions.CompiledKeyBuilder, ctx expressions.KeyBuilderContext) (out string, panicked bool) {
	defer func() {
		if r := recover(); r != nil {
			panicked = true
		}
	}()
	return kb.BuildKey(ctx), false
}

// c10Load runs the real funcs-file loader. A body whose constant part makes a helper panic while the loader folds it
// (`{repeat x -1}`) crashes the compiler: C08's subject; such a file is redrawn like one that does not compile.
func c10Load(text string) (m map[string]expressions.KeyBuilderFunction, err error) {
	defer func() {
		if r := recover(); r != nil {
			m, err = nil, fmt.Errorf("the loader panicked: %v", r)
		}
	}()
	return funcfile.LoadDefinitions(funclib.NewKeyBuilder(), strings.NewReader(text), "gen.funcs")
}

const c10Pattern = `^(?P<verb>\S+) (?P<code>\d+)(?: (?P<path>\S+))?`

// shapes of the range family: %A is replaced by an array-valued expression, %S by a scalar sub-expression
var c10RangeShapes = []string{
	`{@join {@map %A "%S"} ,}`,
	`{@map %A "%S"}`,
	`{@filter %A "%S"}`,
	`{@reduce %A "{sumi {0} {1}}" 0}`,
	`{@reduce %A "{maxi {0} {1}}"}`,
	`{@len {@filter %A "%S"}}`,
	`{@join {@map {@map %A "%S"} "%S"} -}`,
	`{@select {@map %A "%S"} 1}`,
	`{@slice {@map %A "%S"} 1 2}`,
	`{@in {code} {@map %A "%S"}}`,
	`{@join {@for 0 {lt {0} 4} {sumi {0} 1}} {@len %A}}`,
	`k:{@map %A "%S"}:{@filter %A "%S"}`,
	// sub-expressions of @for that refer to the enclosing match ({0} = current value, {1} = iteration index)
	`{@join {@for 1 {lt {1} {len {verb}}} {multi {0} 2}} ,}`,
	`{@for {verb} {lt {1} 3} "{0}{src}"}`,
	`{@len {@for 0 {and {lt {1} 6} {lt {0} {code}}} {sumi {0} 97}}}`,
	`{@join {@for {line} {and {lt {1} 4} {path}} {sumi {0} {line}}} /}`,
}
var c10Arrays = []string{`{@split {0} " "}`, `{@ {1} {2} {3}}`, `{@range 1 5}`, `{@split {path} /}`, `{@ {verb} {code}}`, `{$ {2} 7 {line}}`, `{@split {0}}`}
var c10Subs = []string{`{upper {0}}`, `{len {0}}`, `{sumi {0} {code}}`, `{isnum {0}}`, `{prefix {0} G}`, `{0}{verb}`, `{multi {0} 2}`, `{eq {0} {1}}`, `{substr {0} 0 2}`, `{if {isint {0}} {sumi {0} 1} x}`, `{src}:{0}`}

// shapes of the math family ({! expr}: a per-call-site pooled context that counts conversion errors): operands are
// groups that are numeric on some lines and text or missing on others
var c10MathShapes = []string{
	`{! [code] * 2 + 1}`, `{! [2] / 100}`, `{! [code] + [line]}`, `{! [3] + 1}`, `{! [1] * 2}`, `{! ([code] - 200) * [line]}`,
	`{! [code] + 1} {! [path] + 1}`, `{! [line] * 3}:{! [verb] - 1}`, `{sumi {! [code] % 7} 1}`, `k{! 2 + 2}-{! [line] + 0}`,
	`{if {isnum {3}} {! [3] * 2} {! [code] * 2}}`, `{! [code] > 300}`, `{! round([code] / 7)}`,
}

// shapes of the lookup family: a table (inline text, or loaded from a file) consulted by every worker
var c10LookupShapes = []string{
	`{lookup {verb} "GET g\nPOST p\nPUT\nDEL d"}`,
	`{haskey {verb} "GET\nDEL"}`,
	`{if {0} {lookup {code} "200 ok\n404 nf\n500 err"} none}`,
	`{lookup {1} {load table.txt}}`,
	`{if {haskey {code} {load table.txt}} {lookup {code} {load table.txt}} {verb}}`,
	`{lookup {verb} "# verbs\nGET g\nPOST p" "#"}-{lookup {path} "/a A\n/ root"}`,
	`{if {gt {len {0}} 8} {lookup {2} "200 ok\n7 seven\n0042 x"}}`,
	`{if {0} {lookup {verb} {load table.txt}} -}`,
	`{if {0} {haskey {code} {load table.txt}}}:{if {1} {lookup {code} {load table.txt}}}`,
}

// shapes of the time-parsing family: %D is a date-valued expression
var c10TimeShapes = []string{
	`{time %D}`,
	`{timeformat {time %D} 2006-01-02}`,
	`{buckettime %D day}`,
	`{timeattr {time %D} weekday}`,
	`{time %D "" utc}`,
	`{sumi {time %D} 1}`,
	// an explicit layout (%F: the layout of the run's date tokens, by name or spelled out): another branch of the helper
	`{time %D %F}`,
	`{buckettime %D hour %F}`,
	`{timeformat {time %D %F} 2006-01-02T15}`,
	`{time %D %F utc}`,
}
var c10DateExprs = []string{`{1}`, `{verb}`, `{coalesce {1} %C}`, `{coalesce {9} {1}}`, `{if {2} {1} %C}`, `{coalesce {path} %C}`}
var c10DateConsts = []string{`01/02/2006`, `2006-01-02`, `"Jan 2 2006"`, `2006-01-02T15:04:05Z`, `02/01/2006`}

func init() {
	worlds["C10"] = func(rc *RunCtx) {
		if (rc.Index/2)%5 == 4 && rc.Mode != simrt.ModeFree {
			// one run in five goes through the command line: --funcs, global output flags, `expression --no-optimize`
			c10CliWorld(rc)
			return
		}
		t := rc.Tape
		for k := range funclib.Additional {
			delete(funclib.Additional, k)
		}
		// callable builtins, sorted for determinism
		var fns []string
		for name := range funclib.Builtins {
			if !xExcluded[name] {
				fns = append(fns, name)
			}
		}
		sort.Strings(fns)
		family := []string{"builtin", "builtin", "funcs", "funcs", "time", "range", "timeparse", "timefuncs", "math", "lookup"}[t.W(10)]
		sc := genPipeScenario(rc, true, 30)
		sc.MatcherKind, sc.Pattern, sc.IgnoreCase = 1, c10Pattern, false
		sc.Ignores = nil
		sc.Workers = t.WRange(1, 4)
		if family != "time" && family != "timefuncs" && t.WBool(1, 6) {
			// a tight run: two workers, one line per batch, a handful of lines from one input. With so few steps a particular
			// interleaving of two workers inside one shared stage (A between two of its stores, B through all of its own) is a
			// sizeable fraction of all schedules, and the run costs a fraction of a normal one
			sc.Inputs = sc.Inputs[:1]
			in := &sc.Inputs[0]
			if in.Gz {
				in.Gz, in.Name, in.GzAt = false, strings.TrimSuffix(in.Name, ".gz"), nil
			}
			if ls := bytes.SplitAfter(in.Data, []byte("\n")); len(ls) > 6 {
				in.Data = bytes.Join(ls[:6], nil)
			}
			sc.Workers, sc.Batch, sc.Readers, sc.ConsLatPm, sc.ConsLatMs = 2, 1, 1, 0, 0
			rc.Probes["tight-runs"]++
		}
		if family == "lookup" && sc.Workers == 1 {
			sc.Workers = 2 + t.W(3)
		}
		if family == "math" && sc.Workers == 1 {
			sc.Workers = 2 + t.W(3)
		}
		if family == "range" && sc.Workers == 1 {
			sc.Workers = 2 + t.W(3) // the pooled sub-expression contexts are the subject: share them
		}
		tpIso := false
		if family == "timeparse" {
			// date tokens of ONE layout per run (the helper caches the first layout it detects, by design)
			iso := t.WBool(1, 2)
			tpIso = iso
			var burst []string
			for k := 2 + t.W(3); k > 0; k-- {
				if iso {
					burst = append(burst, fmt.Sprintf("2021-%02d-%02d ", 1+t.W(12), 1+t.W(28)))
				} else {
					burst = append(burst, fmt.Sprintf("2021-%02d-%02dT%02d:04:05Z ", 1+t.W(12), 1+t.W(28), t.W(24)))
				}
			}
			verb := regexp.MustCompile(`(?m)^[A-Z]+ `)
			digits := regexp.MustCompile(`(?m)^(\d)`)
			for i := range sc.Inputs {
				// no other first token may look like a date or timestamp to the layout detector
				sc.Inputs[i].Data = digits.ReplaceAll(sc.Inputs[i].Data, []byte("n$1"))
				sc.Inputs[i].Data = verb.ReplaceAllFunc(sc.Inputs[i].Data, func(m []byte) []byte {
					if t.W(3) == 0 {
						return m
					}
					// log lines come in bursts that share a timestamp: most tokens are drawn from a few values per run, so that
					// anything a stage remembers about "the last timestamp" is hit, also by another worker
					if t.W(4) != 0 {
						return []byte(burst[t.W(len(burst))])
					}
					if iso {
						return []byte(fmt.Sprintf("2021-%02d-%02d ", 1+t.W(12), 1+t.W(28)))
					}
					return []byte(fmt.Sprintf("2021-%02d-%02dT%02d:04:05Z ", 1+t.W(12), 1+t.W(28), t.W(24)))
				})
				if sc.Inputs[i].Plan != nil && sc.Inputs[i].Plan.ErrAt > int64(len(sc.Inputs[i].Data)) {
					sc.Inputs[i].Plan.ErrAt = int64(len(sc.Inputs[i].Data))
				}
			}
		}
		// ---- draw a usable template ----
		var tpl, refTpl, funcsText, dateProbe string
		attempts := 0
		re := regexp.MustCompile(c10Pattern)
		names := map[string]int{}
		for i, n := range re.SubexpNames() {
			if n != "" {
				names[n] = i
			}
		}
		type lineCtx struct {
			ctx *refCtx
			src string
			no  uint64
		}
		var ctxs []lineCtx
		for _, in := range sc.Inputs {
			for i, raw := range refSplit(in.delivered()) {
				text := string(raw)
				if idx := re.FindStringSubmatchIndex(text); idx != nil {
					ctxs = append(ctxs, lineCtx{&refCtx{line: text, idx: idx, names: names, src: in.Name, lineNo: uint64(i + 1)}, in.Name, uint64(i + 1)})
				}
			}
		}
		var refKB *expressions.CompiledKeyBuilder
		usable := false
		for attempts = 1; attempts <= 40 && !usable; attempts++ {
			for k := range funclib.Additional {
				delete(funclib.Additional, k)
			}
			funcsText = ""
			switch family {
			case "builtin":
				g := &xGen{t: t, fns: fns}
				var ns []*xNode
				for n := 1 + t.W(3); n > 0; n-- {
					if t.WBool(1, 4) {
						ns = append(ns, &xNode{Kind: xLit, S: []string{"-", " ", "k:", "x "}[t.W(4)]})
					} else {
						ns = append(ns, g.node(3))
					}
				}
				if t.WBool(1, 2) {
					// every helper takes its turn as the outermost call (a run index names it): state that one helper shares
					// between workers is then exercised in every batch, not only when the dice pick that helper
					root := &xGen{t: t, fns: []string{fns[int(rc.Index/2)%len(fns)]}}
					for tries := 0; tries < 4; tries++ {
						if n := root.node(3); n.Kind == xCall {
							ns[len(ns)-1] = n
							for i, a := range n.Args {
								if a.Kind == xLit && t.WBool(1, 2) {
									n.Args[i] = g.node(1) // mostly dynamic arguments
								}
							}
							break
						}
					}
				}
				tpl = xPrint(ns)
				refTpl = tpl
			case "funcs":
				defs := map[string]*xNode{}
				var fnNames []string
				bg := &xGen{t: t, fns: append([]string{}, xScalar...), inBody: true}
				var file strings.Builder
				nDefs := 1 + t.W(3)
				junkLines := 0
				redefAt := -1
				if nDefs >= 2 && t.WBool(1, 4) {
					// one more definition that re-defines the first function in the middle of the file: definitions written before
					// it keep calling the old one, later ones (and the template) get the new one
					nDefs++
					redefAt = 1 + t.W(nDefs-2)
				}
				firstName := ""
				for i := 0; i < nDefs; i++ {
					name := fmt.Sprintf("uf%d", i+1)
					if i == redefAt {
						name = firstName
					}
					if i == 0 && t.WBool(1, 5) {
						// a user function may carry the name of a builtin (one the generated bodies never call): it takes its place
						name = []string{"hf", "tab", "basename", "percent", "repeat"}[t.W(5)]
					}
					body := bg.node(2)
					if t.WBool(1, 6) {
						// a body that formats its arguments (every argument evaluated into one place before the result is built)
						body = &xNode{Kind: xCall, S: []string{"format", "format", "coalesce", "sumi"}[t.W(4)], Args: []*xNode{{Kind: xLit, S: "0"}, {Kind: xGroup, N: 0}, {Kind: xGroup, N: 1}}}
						if body.S == "format" {
							body.Args[0] = &xNode{Kind: xLit, S: []string{"%s-%s", "%s:%s", "%v|%5s"}[t.W(3)]}
						}
					}
					if body.Kind == xLit && body.S == "" {
						body = &xNode{Kind: xGroup, N: 0}
					}
					if redefAt >= 0 && i > 0 && i != redefAt && (i == redefAt-1 || i == nDefs-1) && t.WBool(2, 3) {
						// the same argument text `{first {0}}` in a definition before and in one after the re-definition
						body = &xNode{Kind: xCall, S: []string{"upper", "lower", "len", "prefix"}[t.W(4)], Args: []*xNode{{Kind: xCall, S: firstName, Args: []*xNode{{Kind: xGroup, N: 0}}}}}
						if body.S == "prefix" {
							body.Args = append(body.Args, &xNode{Kind: xLit, S: "G"})
						}
					}
					if i == 0 {
						firstName = name
					}
					// bound at definition time: calls to earlier definitions are resolved now
					defs[name] = xInline(body, defs)
					if i != redefAt {
						fnNames = append(fnNames, name)
						bg.fns = append(bg.fns, name) // later definitions may call earlier ones
					}
					text := name + " " + body.top()
					if t.WBool(1, 8) {
						// a line that is no definition (a name without an expression): the loader reports it and goes on; the
						// definitions after it load as if it were not there
						file.WriteString([]string{"todo\n", "later   # not written yet\n", "  stub  \n"}[t.W(3)])
						junkLines++
					}
					if t.WBool(1, 3) {
						file.WriteString("# a comment line\n")
					}
					if t.WBool(1, 4) {
						file.WriteString("\n   \n")
					}
					sp := strings.LastIndex(text, " ")
					if q := strings.Index(text, `"`); q >= 0 && t.WBool(1, 2) {
						// prefer a space inside a quoted argument: the string then spans the continuation
						rest := text[q+1:]
						if in, end := strings.Index(rest, " "), strings.Index(rest, `"`); in >= 0 && end > in {
							sp = q + 1 + in
						}
					}
					if sp > len(name) && t.WBool(1, 2) {
						// backslash continuation: the space stays in front of the backslash
						file.WriteString(text[:sp+1] + "\\\n      " + text[sp+1:])
					} else {
						file.WriteString(text)
					}
					if t.WBool(1, 3) {
						file.WriteString("   # trailing comment")
					}
					file.WriteString("\n")
				}
				funcsText = file.String()
				if t.WBool(1, 3) {
					funcsText = strings.TrimSuffix(funcsText, "\n") // a last line without a newline is still a line
				}
				cg := &xGen{t: t, fns: append(append([]string{}, xScalar...), fnNames...)}
				call := &xNode{Kind: xCall, S: fnNames[t.W(len(fnNames))]}
				for n := 1 + t.W(3); n > 0; n-- {
					call.Args = append(call.Args, cg.node(1))
				}
				if t.WBool(1, 3) {
					// the function called again inside one of its own arguments: the body's stages are shared by both call sites
					// and are entered a second time while the outer call is still being evaluated
					inner := &xNode{Kind: xCall, S: call.S}
					for n := 1 + t.W(3); n > 0; n-- {
						inner.Args = append(inner.Args, cg.node(1))
					}
					call.Args[t.W(len(call.Args))] = inner
				}
				ns := []*xNode{call}
				if t.WBool(1, 3) {
					ns = append([]*xNode{{Kind: xLit, S: "k:"}}, ns...)
				}
				tpl = xPrint(ns)
				var inl []*xNode
				for _, n := range ns {
					inl = append(inl, xInline(n, defs))
				}
				refTpl = xPrint(inl)
				// load through the real loader; its log lines go to a scratch stderr
				devnull, _ := os.OpenFile(os.DevNull, os.O_WRONLY, 0)
				old := os.Stderr
				os.Stderr = devnull
				logger.DeferLogs()
				logger.ImmediateLogs()
				loaded, lerr := c10Load(funcsText)
				os.Stderr = old
				logger.DeferLogs()
				logger.ImmediateLogs()
				devnull.Close()
				if lerr != nil {
					continue // a body that does not compile (arity): not this world's subject
				}
				if len(loaded) != len(fnNames) {
					rc.Violate("funcs-file-definition-lost", "the funcs file defines %d functions without an error, but %d were loaded:\n%q", len(fnNames), len(loaded), funcsText)
					return
				}
				for _, name := range fnNames {
					if _, ok := loaded[name]; !ok {
						rc.Violate("funcs-file-definition-lost", "the funcs file defines %q without an error, but the loader did not return it (it returned %v):\n%q", name, sortedKeys(loaded), funcsText)
						return
					}
				}
				rc.Probes["funcs-file-non-definition-lines"] += int64(junkLines)
				funclib.AddFunctions(loaded)
			case "range":
				shape := c10RangeShapes[t.W(len(c10RangeShapes))]
				for strings.Contains(shape, "%A") {
					shape = strings.Replace(shape, "%A", c10Arrays[t.W(len(c10Arrays))], 1)
				}
				for strings.Contains(shape, "%S") {
					shape = strings.Replace(shape, "%S", c10Subs[t.W(len(c10Subs))], 1)
				}
				tpl, refTpl = shape, shape
			case "math":
				tpl = c10MathShapes[t.W(len(c10MathShapes))]
				refTpl = tpl
			case "lookup":
				// (a table of a few thousand entries: whatever a helper does with it on first use takes a while)
				var tb strings.Builder
				for i := 0; i < 4000; i++ {
					fmt.Fprintf(&tb, "filler%d v%d\n", i, i)
				}
				tb.WriteString("GET g\nPOST p\n200 ok\n404 nf\n301\nDEL d\n")
				os.WriteFile("table.txt", []byte(tb.String()), 0o644)
				tpl = c10LookupShapes[t.W(len(c10LookupShapes))]
				refTpl = tpl
			case "timeparse":
				shape := c10TimeShapes[t.W(len(c10TimeShapes))]
				d := c10DateExprs[t.W(len(c10DateExprs))]
				d = strings.Replace(d, "%C", c10DateConsts[t.W(len(c10DateConsts))], 1)
				tpl = strings.Replace(shape, "%D", d, 1)
				if tpIso {
					tpl = strings.Replace(tpl, "%F", "2006-01-02", 1)
				} else {
					tpl = strings.Replace(tpl, "%F", []string{"RFC3339", "2006-01-02T15:04:05Z07:00", "rfc3339"}[t.W(3)], 1)
				}
				refTpl = tpl
				// what the date expression evaluates to when every group and key is empty
				dateProbe = ""
				if pe := xCompile(funclib.NewKeyBuilderEx(false), d); pe.err == "" {
					dateProbe, _ = xBuild(pe.kb, xEmptyCtx{})
				}
			case "timefuncs":
				kind := []string{"live", "delta"}[t.W(2)]
				body := []string{"{time " + kind + "}", "t={time " + kind + "}", "{sumi {time " + kind + "} {0}}"}[t.W(3)]
				funcsText = "# clock helpers\nuf1 " + body + "\n"
				if t.WBool(1, 2) {
					funcsText += "uf2 {uf1 {0}}\n"
					tpl = "{uf2 0}"
				} else {
					tpl = "{uf1 0}"
				}
				refTpl = ""
				// loaded inside the bubble (below), so that load time and evaluation time are on the same clock
			case "time":
				kind := []string{"live", "delta", "now"}[t.W(3)]
				switch t.W(3) {
				case 0:
					tpl = "{time " + kind + "}"
				case 1:
					tpl = "t={time " + kind + "}"
				default:
					tpl = "{sumi {time " + kind + "} 0}"
				}
				refTpl = ""
			}
			if family == "time" || family == "timefuncs" {
				usable = true
				break
			}
			// the reference form must compile and must not panic on any line (compile errors and panics of a
			// template as such are C08's subject); the optimised form is then held to the same behaviour
			plainB := expressions.NewKeyBuilderEx(false)
			plainB.Funcs(funclib.Builtins)
			ref := xCompile(plainB, refTpl)
			if ref.err != "" {
				continue
			}
			ok := true
			for _, lc := range ctxs {
				if _, p := xBuild(ref.kb, lc.ctx); p {
					ok = false
					break
				}
			}
			if !ok {
				continue
			}
			opt := xCompile(funclib.NewKeyBuilder(), tpl)
			if opt.err != "" {
				// e.g. a call argument that does not compile although the body never uses it: a legitimate compile error
				continue
			}
			for _, lc := range ctxs {
				if _, p := xBuild(opt.kb, lc.ctx); p {
					rc.Violate("optimised-form-panics", "template %q panics on %q, while its reference form %q evaluates\nfuncs file:\n%s", tpl, clip(lc.ctx.line, 80), refTpl, funcsText)
					return
				}
			}
			refKB = ref.kb
			usable = true
		}
		if !usable {
			rc.Probes["no-usable-template"]++
			rc.Sample = map[string]any{"family": family, "skipped": "no usable template in 40 attempts"}
			return
		}
		sc.Extract = tpl
		desc := sc.describe()
		desc["family"] = family
		desc["reference_template"] = refTpl
		desc["funcs_file"] = funcsText
		desc["attempts"] = attempts
		rc.Sample = desc
		rc.Probes["family-"+family]++

		if family == "time" || family == "timefuncs" {
			sc.ScanBuf = 0 // seconds of latency per read: keep the number of reads small
			// whole seconds pass between reads
			for i := range sc.Inputs {
				sc.Inputs[i].Plan.LatPermille = []int{300, 700, 1000}[t.F(3)]
				sc.Inputs[i].Plan.LatMaxMs = []int{900, 2500, 4000}[t.F(3)]
				sc.Inputs[i].Plan.Chunk = true
				sc.Inputs[i].Plan.ErrAt = -1
			}
		}
		// consumption instants per match
		t0 := time.Time{}     // the instant the pipeline's expression is compiled
		tStart := time.Time{} // the instant the bubble started (fs-log and consumption times count from here)
		out := runPipeHook(rc, sc, simrt.Opts{MaxSteps: 150000, IdleLimit: time.Hour, FreeLimit: 24 * time.Hour}, func() {
			tStart = time.Now()
			if family == "time" && rc.Mode != simrt.ModeFree {
				// sequential prelude on the fake clock: both forms are compiled now, evaluated some seconds later, and must
				// agree with the clock and with each other (the clock of {time delta} starts when the expression is compiled,
				// whether or not the optimiser looked at it)
				tA := time.Now()
				forms := []struct {
					name string
					ev   xEval
				}{{"optimised", xCompile(funclib.NewKeyBuilder(), tpl)}, {"--no-optimize", xCompile(funclib.NewKeyBuilderEx(false), tpl)}}
				num := regexp.MustCompile(`-?\d+`)
				for _, pause := range []time.Duration{2500 * time.Millisecond, 1700 * time.Millisecond} {
					time.Sleep(pause)
					simrt.Yield("world:c10-prelude")
					te := time.Now()
					for _, f := range forms {
						if f.ev.err != "" {
							continue
						}
						sv, _ := xBuild(f.ev.kb, xEmptyCtx{})
						v, err := strconv.ParseInt(num.FindString(sv), 10, 64)
						if err != nil {
							continue
						}
						var want int64
						class := ""
						switch {
						case strings.Contains(tpl, "now"):
							want, class = tA.Unix(), "time-now"
						case strings.Contains(tpl, "live"):
							want, class = te.Unix(), "time-live-frozen-or-wrong"
						case strings.Contains(tpl, "delta"):
							want, class = int64(te.Sub(tA)/time.Second), "time-delta-frozen-or-wrong"
						}
						if class != "" && (v < want-1 || v > want+1) {
							rc.Violate(class, "[sequential, %s] template %q compiled at fake +0s and evaluated at +%v gives %d, expected %d (+-1)", f.name, tpl, te.Sub(tA), v, want)
						}
					}
				}
			}
			t0 = time.Now()
			if family == "timefuncs" {
				loaded, lerr := c10Load(funcsText)
				if lerr != nil {
					panic(lerr)
				}
				funclib.AddFunctions(loaded)
			}
		})
		for k := range funclib.Additional {
			delete(funclib.Additional, k)
		}
		if out.Sim.EndReason == "step-budget" && len(out.Sim.Panics) == 0 {
			// a template whose evaluation loops over pooled contexts many thousand times (nested @for/@map):
			// expensive, not wrong; termination is not this property's subject
			rc.Probes["template-too-expensive"]++
			return
		}
		if !rc.StdEnd(out.Sim, "termination") {
			rc.Viol[len(rc.Viol)-1].Msg += fmt.Sprintf("\nscenario: %v", desc)
			return
		}
		rc.Nontrivial = out.Sim.MultiChoice > 0 && len(ctxs) > 0
		if rc.Mode == simrt.ModeFree {
			rc.Nontrivial = true
			return
		}
		got := map[string]string{}
		for _, m := range out.Matches {
			got[fmt.Sprintf("%s\x00%d", m.Source, m.LineNumber)] = m.Extracted
		}
		if family != "time" && family != "timefuncs" {
			bad := 0
			for _, lc := range ctxs {
				want, _ := xBuild(refKB, lc.ctx)
				g, emitted := got[fmt.Sprintf("%s\x00%d", lc.src, lc.no)]
				if !emitted {
					g = ""
				}
				if g != want {
					bad++
					if bad <= 2 {
						cl := "optimised-differs"
						switch family {
						case "funcs":
							cl = "funcs-file-differs"
						case "math":
							cl = "math-differs"
						case "lookup":
							cl = "lookup-differs"
						case "range":
							cl = "range-helpers-differ"
						case "timeparse":
							cl = "time-parse-differs"
						}
						tag := ""
						if family == "timeparse" && dateProbe != "" {
							tag = fmt.Sprintf("[date expression yields the constant %q on the all-empty context the optimiser probes with] ", dateProbe)
						}
						rc.Violate(cl, tag+"template %q on %s line %d %q: the pipeline (optimised, %d workers) produced %q, the sequential un-optimised evaluation of %q gives %q\nfuncs file:\n%s\nscenario: %v",
							tpl, lc.src, lc.no, clip(lc.ctx.line, 80), sc.Workers, g, refTpl, want, funcsText, desc)
					}
				}
			}
			rc.Logf("tpl=%q emitted=%d", tpl, len(out.Matches))
			for _, m := range out.Matches {
				rc.Logf("%s:%d %q", m.Source, m.LineNumber, m.Extracted)
			}
			return
		}
		// ---- time family ----
		num := regexp.MustCompile(`-?\d+`)
		distinct := map[int64]bool{}
		var maxCons time.Duration
		for i, m := range out.Matches {
			sv := num.FindString(m.Extracted)
			v, err := strconv.ParseInt(sv, 10, 64)
			if err != nil {
				rc.Violate("time-shape", "template %q produced %q", tpl, m.Extracted)
				return
			}
			distinct[v] = true
			cons := out.ConsumedAt[i]
			if cons > maxCons {
				maxCons = cons
			}
			readAt := c10ReadInstant(out.Sim, sc, m.Source, m.LineNumber)
			lo, hi := tStart.Add(readAt).Unix(), tStart.Add(cons).Unix()
			base := t0.Unix()
			switch {
			case strings.Contains(tpl+funcsText, "now"):
				if v != base {
					rc.Violate("time-now", "template %q: line %s:%d gives %d, the compile instant is %d\nscenario: %v", tpl, m.Source, m.LineNumber, v, base, desc)
					return
				}
			case strings.Contains(tpl+funcsText, "live"):
				if v < lo || v > hi {
					rc.Violate("time-live-frozen-or-wrong", "[%s] template %q: line %s:%d (read at fake +%v, consumed at +%v) gives %d, outside [%d, %d]\nfuncs file:\n%s\nscenario: %v", family, tpl, m.Source, m.LineNumber, readAt, cons, v, lo, hi, funcsText, desc)
					return
				}
			case strings.Contains(tpl+funcsText, "delta"):
				if v < lo-base || v > hi-base {
					rc.Violate("time-delta-frozen-or-wrong", "[%s] template %q: line %s:%d (read at fake +%v, consumed at +%v) gives %d, outside [%d, %d]\nfuncs file:\n%s\nscenario: %v", family, tpl, m.Source, m.LineNumber, readAt, cons, v, lo-base, hi-base, funcsText, desc)
					return
				}
			}
		}
		if len(distinct) > 1 {
			rc.Probes["time-values-vary"]++
		}
		rc.Logf("tpl=%q emitted=%d distinct=%d", tpl, len(out.Matches), len(distinct))
	}
}

// c10ReadInstant returns the fake time at which the read that delivered the end of the given line happened.
func c10ReadInstant(s *simrt.Sim, sc *pipeScenario, src string, lineNo uint64) time.Duration {
	var data []byte
	for _, in := range sc.Inputs {
		if in.Name == src {
			data = in.delivered()
			if in.Gz {
				// the fs log counts compressed bytes, line offsets are in decompressed bytes: the two do not compare (a line
				// may come out of the decompressor long before the compressed offset reaches its decompressed offset). The first
				// read of the file is the lower bound that is always right
				for _, e := range s.FS.Log {
					if e.Path == src && e.Op == "read" {
						return e.T
					}
				}
				return 0
			}
		}
	}
	// byte offset of the start of the line (the read that delivered its first byte is a lower bound)
	off := int64(0)
	n := uint64(1)
	for i, c := range data {
		if n == lineNo {
			off = int64(i)
			break
		}
		if c == '\n' {
			n++
			off = int64(i + 1)
		}
	}
	for _, e := range s.FS.Log {
		if e.Path == src && e.Op == "read" && e.Off > off {
			return e.T
		}
	}
	return 0
}
