package main

// C03 world: the whole CLI in-process. One scenario = one corpus + one aggregator command line; it
// is executed under several variants that must not matter (--workers/--batch/--batch-buffer/--readers,
// order of file arguments, division of the same lines among files, plain/gzip, stdin, schedule,
// read latencies and hence the number of intermediate renders in fake time, map-iteration salt).
// Oracle 1 (metamorphic): exit status, CSV bytes and snapshot stdout are identical across variants.
// Oracle 2 (reference): the CSV, parsed by a strict RFC 4180 parser, equals an independent
// sequential fold of the reference extraction (stdlib regexp + a template evaluator of the world).

import (
	"bytes"
	"fmt"
	"math"
	"os"
	"regexp"
	"sort"
	"strconv"
	"strings"
	"time"

	"simrt"
)

// ---------- templates the world can evaluate itself ----------

type c3Part struct {
	Lit string
	Grp int  // 0: literal
	Esc bool // write every character of Lit as \c
	All bool // {0}: the whole match
}
type c3Tpl []c3Part

// rare renders the template in rare's syntax.
func (t c3Tpl) rare() string {
	var sb strings.Builder
	for _, p := range t {
		if p.All {
			sb.WriteString("{0}")
			continue
		}
		if p.Grp > 0 {
			fmt.Fprintf(&sb, "{%d}", p.Grp)
			continue
		}
		for _, r := range p.Lit {
			if p.Esc {
				sb.WriteByte('\\')
				sb.WriteRune(r)
				continue
			}
			switch r {
			case '\n':
				sb.WriteString(`\n`)
			case '\t':
				sb.WriteString(`\t`)
			case '{', '}', '\\':
				sb.WriteByte('\\')
				sb.WriteRune(r)
			default:
				sb.WriteRune(r)
			}
		}
	}
	return sb.String()
}

func (t c3Tpl) eval(groups []string) string {
	var sb strings.Builder
	for _, p := range t {
		if p.All {
			if len(groups) > 0 {
				sb.WriteString(groups[0])
			}
			continue
		}
		if p.Grp > 0 {
			if p.Grp < len(groups) {
				sb.WriteString(groups[p.Grp])
			}
			continue
		}
		sb.WriteString(p.Lit)
	}
	return sb.String()
}

var c3Words = []string{"GET", "POST", "a,b", `x"y`, `"q"`, "é", "-", "=1", "7", "007", "1e3", "0", `C:\`, "'", "{1}", "%{x}", "<ERROR>", "Mon", "zzzzzzzzzzzzzzzzzzzzzzzzzzzzzzzzzzzzzzzzzzzzzzzzzzzzzzzz", "b", "B", ",", `""`}
var c3Nums = []string{"1", "2", "-3", "0", "10", "250", "1", "1", "5"}
var c3BadNums = []string{"x", "1.5", "1e2", "--1", "9223372036854775808"}

func c3KeyTpl(t *simrt.Tape, g int) c3Tpl {
	switch t.W(8) {
	case 0:
		// a leading space (written `\ ` so that the CLI's flag parser, which trims arguments, keeps it)
		return c3Tpl{{Lit: " ", Esc: true}, {Grp: g}}
	case 1:
		return c3Tpl{{Grp: g}, {Lit: "\n"}, {Grp: 3 - g}}
	case 2:
		return c3Tpl{{Grp: g}, {Lit: " x"}}
	case 3:
		return c3Tpl{{Lit: "é{"}, {Grp: g}, {Lit: "}"}}
	case 4:
		return c3Tpl{{Grp: g}, {Lit: "\r\n"}}
	default:
		return c3Tpl{{Grp: g}}
	}
}

type c3Line struct {
	Raw string
	G   []string // regex groups (nil: no match)
}

type c3Scenario struct {
	Kind    string // histo, table, heatmap, spark, bars, reduce, analyze, json-key
	Lines   []c3Line
	Regex   string
	Tpls    []c3Tpl // -e templates
	Ignore  string  // word: lines whose group 1 equals it are ignored
	Flags   []string
	HasCSV  bool
	KeepCols int  // spark-trunc: --cols
	ColsDesc bool // spark-trunc: --sort-cols text:reverse
	Missing   int  // paths on the command line that do not exist (every variant names as many): read errors, exit status 2
	NoMatcher bool // no -m/-d on the command line: every line matches as a whole ({0})
	AtLeast    int  // histo --atleast: the screen shows only keys with at least this count (the CSV export shows all)
	SmallView  bool // table/heatmap with --cols/--num smaller than the data: the screen is cut, the CSV export is not
	RecordTerm bool // keep every screen line the program writes (intermediate renders), see c13Screens
	GroupBy2 bool // reduce-ordered: grouped by the second word
	OneByOne bool // equality only demanded between 1-reader-1-worker variants (not used by the order-insensitive commands)
}

type c3Variant struct {
	Workers, Batch, Buffer, Readers int
	Files   [][]int // line indices per file
	Gz      []bool
	GzMulti []bool
	Order   []int
	Stdin   bool
	LatPm   int
	LatMs   int
	Salt    uint64
	Chunk   bool
	ScanBuf int // override of the scanner's 128 KiB buffer constant (0: unchanged)
	YLatPm  int  // per-mille chance that a goroutine loses some fake milliseconds at a yield (slow stages: a render tick can then
	YLatMs  int  // fall between any two visible operations of a reader or worker, not only while everybody waits for input)
	Roots   bool // every file in a directory of its own, named on the command line as `-R r0 r1 ...`
}

func (v *c3Variant) String() string {
	var fs []string
	for i, f := range v.Files {
		z := ""
		if v.Gz[i] {
			z = ".gz"
		}
		fs = append(fs, fmt.Sprintf("f%d%s:%d lines", i, z, len(f)))
	}
	return fmt.Sprintf("workers=%d batch=%d buffer=%d readers=%d stdin=%v files=%v order=%v latency=%d/1000<=%dms yield-latency=%d/1000<=%dms mapsalt=%x scanbuf=%d", v.Workers, v.Batch, v.Buffer, v.Readers, v.Stdin, fs, v.Order, v.LatPm, v.LatMs, v.YLatPm, v.YLatMs, v.Salt, v.ScanBuf)
}

func c3GenScenario(t *simrt.Tape) *c3Scenario {
	sc := &c3Scenario{}
	sc.Kind = []string{"histo", "histo", "table", "heatmap", "spark", "bars", "reduce", "analyze", "json-key", "spark-trunc", "reduce-ordered"}[t.W(11)]
	// corpus
	p1 := 2 + t.W(5)
	p2 := 1 + t.W(4)
	w1 := make([]string, p1)
	w2 := make([]string, p2)
	for i := range w1 {
		w1[i] = c3Words[t.W(len(c3Words))]
	}
	for i := range w2 {
		w2[i] = c3Words[t.W(len(c3Words))]
	}
	badNums := t.WBool(1, 4)
	// zero/negative totals make the bar, heat and spark renderers divide by zero or scale below 0:
	// that is C14's subject (pure), kept out of this world
	posOnly := sc.Kind == "bars" || sc.Kind == "heatmap" || sc.Kind == "spark" || sc.Kind == "histo" || sc.Kind == "spark-trunc"
	n := t.W(61)
	re := regexp.MustCompile(`^(\S+) (\S+) (\S+)$`)
	sc.Regex = `^(\S+) (\S+) (\S+)$`
	emptyWord := false
	if sc.Kind == "histo" && t.WBool(1, 4) {
		// the first word may be empty (` w2 5`): the empty string is a key like any other when an increment follows it
		sc.Regex = `^(\S*) (\S+) (\S+)$`
		re = regexp.MustCompile(sc.Regex)
		emptyWord = true
		w1[0] = ""
	}
	if sc.Kind == "reduce" || sc.Kind == "analyze" || sc.Kind == "reduce-ordered" {
		sc.Regex = `^(\S+) (\S+) (-?\d+)$`
		re = regexp.MustCompile(sc.Regex)
	}
	if sc.Kind == "json-key" {
		sc.Regex = `^(?P<alpha>\w+) (?P<beta>\w+) (?P<n>\d+)$`
		re = regexp.MustCompile(sc.Regex)
		w1 = []string{"GET", "POST", "b", "B", "Mon"}[:2+t.W(4)]
		w2 = []string{"x", "y", "zz"}[:1+t.W(3)]
	}
	for i := 0; i < n; i++ {
		var raw string
		switch t.W(12) {
		case 0:
			raw = "noise line without numbers"
		case 1:
			raw = ""
		default:
			num := c3Nums[t.W(len(c3Nums))]
			if posOnly && (num == "0" || num[0] == '-') {
				num = "4"
			}
			if badNums && t.WBool(1, 5) {
				num = c3BadNums[t.W(len(c3BadNums))]
				if (sc.Kind == "reduce" || sc.Kind == "analyze") && len(num) > 15 {
					num = "x" // digits beyond int64 match -?\d+ but are not a number for sumi: not this world's subject
				}
			}
			raw = w1[t.W(p1)%len(w1)] + " " + w2[t.W(p2)%len(w2)] + " " + num
		}
		l := c3Line{Raw: raw}
		if m := re.FindStringSubmatch(raw); m != nil {
			l.G = m
		}
		sc.Lines = append(sc.Lines, l)
	}
	if t.WBool(1, 4) && regexp.MustCompile(`^[A-Za-z0-9]+$`).MatchString(w1[0]) {
		sc.Ignore = w1[0]
	}
	inc := t.WBool(1, 2) || emptyWord
	common := []string{"--nocolor", "--noformat", "--notrim"}
	switch sc.Kind {
	case "histo":
		sc.Tpls = []c3Tpl{c3KeyTpl(t, 1)}
		if inc {
			sc.Tpls = append(sc.Tpls, c3Tpl{{Grp: 3}})
		}
		if t.WBool(1, 4) {
			// the default matcher: no -m, the whole line is the match
			sc.NoMatcher, sc.Ignore = true, ""
			sc.Tpls = []c3Tpl{{{All: true}}}
			if t.WBool(1, 2) {
				sc.Tpls = []c3Tpl{{{Lit: "k="}, {All: true}}}
			}
			for i := range sc.Lines {
				if sc.Lines[i].Raw == "" {
					sc.Lines[i].Raw = "(empty)"
				}
				sc.Lines[i].G = []string{sc.Lines[i].Raw}
			}
		}
		sc.Flags = append(common, "histo", "-n", "1000", "--sort", []string{"value", "text", "text:reverse", "value:reverse"}[t.W(4)])
		if t.WBool(1, 3) {
			sc.Flags = append(sc.Flags, "-x")
		}
		if t.WBool(1, 4) {
			sc.AtLeast = 1 + t.W(4)
			sc.Flags = append(sc.Flags, "--atleast", strconv.Itoa(sc.AtLeast))
		}
		sc.HasCSV = true
	case "table", "heatmap", "spark":
		sc.Tpls = []c3Tpl{c3KeyTpl(t, 1), c3KeyTpl(t, 2)}
		if inc {
			sc.Tpls = append(sc.Tpls, c3Tpl{{Grp: 3}})
		}
		sc.Flags = append(common, sc.Kind, "--num", "1000", "--cols", "1000", "--sort-rows", []string{"text", "value"}[t.W(2)], "--sort-cols", []string{"text", "value", "text:reverse"}[t.W(3)])
		if sc.Kind != "spark" && t.WBool(1, 4) {
			// a view smaller than the data: which rows and columns are shown is a function of the final data (and the export
			// still holds everything), however many refreshes saw other rows and columns in front
			sc.SmallView = true
			sc.Flags[5], sc.Flags[7] = strconv.Itoa(1+t.W(3)), strconv.Itoa(1+t.W(3))
		}
		if sc.Kind == "table" && t.WBool(1, 2) {
			sc.Flags = append(sc.Flags, "--rowtotal", "--coltotal")
		}
		if sc.Kind == "spark" {
			sc.Flags = append(sc.Flags, "--notruncate")
		}
		sc.HasCSV = true
	case "spark-trunc":
		// the sparkline trims its table to the last --cols columns inside every render: the final table is
		// still a function of the input (the kept columns are the last N of the final sorted column set)
		sc.Tpls = []c3Tpl{c3KeyTpl(t, 1), c3KeyTpl(t, 2)}
		if inc {
			sc.Tpls = append(sc.Tpls, c3Tpl{{Grp: 3}})
		}
		sc.KeepCols = 1 + t.W(3)
		sc.ColsDesc = t.WBool(1, 2)
		cs := "text"
		if sc.ColsDesc {
			cs = "text:reverse"
		}
		sc.Flags = append(common, "spark", "--num", "1000", "--cols", strconv.Itoa(sc.KeepCols), "--sort-rows", "text", "--sort-cols", cs)
		sc.HasCSV = true
	case "bars":
		sc.Tpls = []c3Tpl{c3KeyTpl(t, 1), c3KeyTpl(t, 2)}
		if inc {
			sc.Tpls = append(sc.Tpls, c3Tpl{{Grp: 3}})
		}
		sc.Flags = append(common, "bars", "--sort", []string{"text", "value"}[t.W(2)])
		if t.WBool(1, 2) {
			sc.Flags = append(sc.Flags, "--stacked")
		}
		sc.HasCSV = true
	case "reduce":
		sc.Tpls = []c3Tpl{{{Grp: 1}}, {{Grp: 2}}, {{Grp: 3}}}
		sc.Flags = append(common, "reduce", "-a", "total={sumi {.} {3}}", "-a", "n={sumi {.} 1}", "-a", "mx:-1000000={maxi {.} {3}}")
		switch t.W(3) {
		case 1:
			sc.Flags = append(sc.Flags, "-g", "{1}")
		case 2:
			sc.Flags = append(sc.Flags, "-g", "{1}", "-g", "{2}")
		}
		if t.WBool(1, 2) {
			// rows ordered by an accumulator (ties: by group key), optionally reversed: the order of the CSV rows and of the
			// snapshot must not depend on how many refreshes happened while the values were still changing
			sc.Flags = append(sc.Flags, "--sort", []string{"{total}", "{n}", "{mx}", "{bucket {total} 10}"}[t.W(4)])
			if t.WBool(1, 3) {
				sc.Flags = append(sc.Flags, "--sort-reverse")
			}
		}
		sc.HasCSV = true
	case "reduce-ordered":
		// accumulators whose value depends on the order of the lines: "any accumulator with one reader and one worker" is a
		// function of the input and the command line. Every variant keeps one reader, one worker and the order of the lines.
		sc.Tpls = []c3Tpl{{{Grp: 1}}, {{Grp: 2}}, {{Grp: 3}}}
		sc.Flags = append(common, "reduce", "-a", "last={1}", "-a", "cat:={.}{2}.", "-a", "n={sumi {.} 1}")
		switch t.W(3) {
		case 1:
			sc.Flags = append(sc.Flags, "-g", "{1}")
		case 2:
			sc.Flags = append(sc.Flags, "-g", "{2}")
			sc.GroupBy2 = true
		}
		sc.HasCSV, sc.OneByOne = true, true
	case "analyze":
		sc.Tpls = []c3Tpl{{{Grp: 3}}}
		sc.Flags = append(common, "analyze")
		if t.WBool(1, 2) {
			sc.Flags = append(sc.Flags, "--extra")
		}
		if t.WBool(1, 3) {
			sc.Flags = append(sc.Flags, "--reverse") // ordered statistics on the reversed series
		}
	case "json-key":
		sc.Flags = append(common, "histo", "-n", "1000", "--sort", "text")
		sc.HasCSV = true
	}
	return sc
}

func c3GenVariant(t *simrt.Tape, sc *c3Scenario, first bool) *c3Variant {
	v := &c3Variant{Workers: t.WRange(1, 4), Batch: []int{1, 2, 5, 1000}[t.W(4)], Buffer: t.WRange(1, 4), Readers: t.WRange(1, 3)}
	if first {
		v.Workers, v.Readers = 1, 1
	}
	n := len(sc.Lines)
	k := t.WRange(1, 4)
	v.Stdin = t.WBool(1, 6)
	if v.Stdin {
		k = 1
	}
	v.Files = make([][]int, k)
	contiguous := t.WBool(1, 2)
	for i := 0; i < n; i++ {
		f := 0
		if contiguous {
			f = i * k / (n + 1)
		} else {
			f = t.W(k)
		}
		v.Files[f] = append(v.Files[f], i)
	}
	v.Gz = make([]bool, k)
	z := !v.Stdin && t.WBool(1, 3)
	v.GzMulti = make([]bool, k)
	for i := range v.Gz {
		v.Gz[i] = z && t.WBool(1, 2)
		v.GzMulti[i] = v.Gz[i] && t.WBool(1, 3)
	}
	v.Order = make([]int, k)
	for i := range v.Order {
		v.Order[i] = i
	}
	for i := k - 1; i > 0; i-- {
		j := t.W(i + 1)
		v.Order[i], v.Order[j] = v.Order[j], v.Order[i]
	}
	if t.FBool(1, 2) {
		v.LatPm = []int{200, 600, 1000}[t.F(3)]
		v.LatMs = []int{20, 120, 300}[t.F(3)]
	}
	v.Chunk = t.FBool(1, 2)
	if t.FBool(1, 2) {
		v.ScanBuf = []int{1, 3, 8, 17, 64, 256}[t.F(6)]
	}
	if t.FBool(1, 3) {
		v.YLatPm = []int{15, 60, 200}[t.F(3)]
		v.YLatMs = []int{3, 40, 130}[t.F(3)]
	}
	v.Salt = uint64(t.F(1<<30))<<1 | 1
	if first {
		v.Salt = 0
	}
	if sc.OneByOne {
		// one reader, one worker, the lines in their order: contiguous division, files named in order
		v.Workers, v.Readers = 1, 1
		k := len(v.Files)
		n := len(sc.Lines)
		v.Files = make([][]int, k)
		for i := 0; i < n; i++ {
			f := i * k / (n + 1)
			v.Files[f] = append(v.Files[f], i)
		}
		for i := range v.Order {
			v.Order[i] = i
		}
		v.Roots = !v.Stdin && t.WBool(1, 2)
	}
	return v
}

// ---------- strict RFC 4180 parser ----------

func parseRFC4180(data []byte) ([][]string, error) {
	var recs [][]string
	var rec []string
	i := 0
	n := len(data)
	for i < n {
		// one field
		var f bytes.Buffer
		if data[i] == '"' {
			i++
			for {
				if i >= n {
					return nil, fmt.Errorf("unterminated quoted field")
				}
				if data[i] == '"' {
					if i+1 < n && data[i+1] == '"' {
						f.WriteByte('"')
						i += 2
						continue
					}
					i++
					break
				}
				f.WriteByte(data[i])
				i++
			}
			if i < n && data[i] != ',' && data[i] != '\n' && !(data[i] == '\r' && i+1 < n && data[i+1] == '\n') {
				return nil, fmt.Errorf("garbage after closing quote at byte %d", i)
			}
		} else {
			for i < n && data[i] != ',' && data[i] != '\n' {
				if data[i] == '"' {
					return nil, fmt.Errorf("bare quote in unquoted field at byte %d", i)
				}
				if data[i] == '\r' {
					if i+1 < n && data[i+1] == '\n' {
						break
					}
					return nil, fmt.Errorf("bare CR in unquoted field at byte %d", i)
				}
				f.WriteByte(data[i])
				i++
			}
		}
		rec = append(rec, f.String())
		if i >= n {
			recs = append(recs, rec)
			rec = nil
			break
		}
		switch data[i] {
		case ',':
			i++
			if i >= n {
				rec = append(rec, "")
				recs = append(recs, rec)
				rec = nil
			}
		case '\r':
			i += 2
			recs = append(recs, rec)
			rec = nil
		case '\n':
			i++
			recs = append(recs, rec)
			rec = nil
		}
	}
	if rec != nil {
		recs = append(recs, rec)
	}
	return recs, nil
}

// ---------- reference ----------

type c3Ref struct {
	Read, Matched, Ignored int
	ParseErrors            int
	Hist                   map[string]int64            // histo
	Cells                  map[string]map[string]int64 // first key -> second key -> sum (table: col->row; bars: key->subkey)
	Second                 map[string]bool
	Red                    map[string][3]int64 // reduce: group -> total, n, mx
	Ord                    map[string][3]string // reduce-ordered: group -> last, cat, n
	Nums                   []float64
	Pairs                  map[string]int64 // json-key: "alpha\x00beta\x00n" -> count
}

func c3Reference(sc *c3Scenario) *c3Ref {
	r := &c3Ref{Hist: map[string]int64{}, Cells: map[string]map[string]int64{}, Second: map[string]bool{}, Red: map[string][3]int64{}, Pairs: map[string]int64{}}
	for _, l := range sc.Lines {
		r.Read++
		if l.G == nil {
			continue
		}
		if sc.Ignore != "" && l.G[1] == sc.Ignore {
			r.Ignored++
			continue
		}
		r.Matched++
		var parts []string
		for _, tp := range sc.Tpls {
			parts = append(parts, tp.eval(l.G))
		}
		inc := int64(1)
		incOK := true
		needInc := 0
		switch sc.Kind {
		case "histo":
			needInc = 1
		case "table", "heatmap", "spark", "bars", "spark-trunc":
			needInc = 2
		}
		if needInc > 0 && len(parts) > needInc {
			v, err := strconv.ParseInt(parts[needInc], 10, 64)
			if err != nil {
				incOK = false
			}
			inc = v
		}
		switch sc.Kind {
		case "histo":
			if !incOK {
				r.ParseErrors++
				continue
			}
			r.Hist[parts[0]] += inc
		case "table", "heatmap", "spark", "bars", "spark-trunc":
			if !incOK {
				r.ParseErrors++
				continue
			}
			if r.Cells[parts[0]] == nil {
				r.Cells[parts[0]] = map[string]int64{}
			}
			r.Cells[parts[0]][parts[1]] += inc
			r.Second[parts[1]] = true
		case "reduce":
			v, _ := strconv.ParseInt(l.G[3], 10, 64)
			g := ""
			ng := 0
			for i, f := range sc.Flags {
				if f == "-g" {
					ng++
					_ = i
				}
			}
			switch ng {
			case 1:
				g = l.G[1]
			case 2:
				g = l.G[1] + "\x00" + l.G[2]
			}
			cur, ok := r.Red[g]
			if !ok {
				cur = [3]int64{0, 0, -1000000}
			}
			cur[0] += v
			cur[1]++
			if v > cur[2] {
				cur[2] = v
			}
			r.Red[g] = cur
		case "reduce-ordered":
			g := ""
			for _, f := range sc.Flags {
				if f == "-g" {
					g = l.G[1]
					if sc.GroupBy2 {
						g = l.G[2]
					}
				}
			}
			if r.Ord == nil {
				r.Ord = map[string][3]string{}
			}
			cur := r.Ord[g]
			cur[0] = l.G[1]
			cur[1] += l.G[2] + "."
			n, _ := strconv.Atoi(cur[2])
			cur[2] = strconv.Itoa(n + 1)
			r.Ord[g] = cur
		case "analyze":
			v, _ := strconv.ParseFloat(l.G[3], 64)
			r.Nums = append(r.Nums, v)
		case "json-key":
			r.Pairs[l.G[1]+"\x00"+l.G[2]+"\x00"+l.G[3]]++
		}
	}
	if sc.Kind == "spark-trunc" && len(r.Cells) > sc.KeepCols {
		cols := sortedKeys(r.Cells)
		if sc.ColsDesc {
			for i, j := 0, len(cols)-1; i < j; i, j = i+1, j-1 {
				cols[i], cols[j] = cols[j], cols[i]
			}
		}
		for _, c := range cols[:len(cols)-sc.KeepCols] {
			delete(r.Cells, c)
		}
		r.Second = map[string]bool{}
		for _, cm := range r.Cells {
			for row := range cm {
				r.Second[row] = true
			}
		}
	}
	return r
}

type c3Out struct {
	V      *c3Variant
	Res    *cliResult
	CSV    []byte
	CSVErr error
	Sim    *simrt.Sim
	Stdout string // status-line masked
	Status string
}

var c3Summary = regexp.MustCompile(`Matched: (\d+) / (\d+)`)
var c3Ignored = regexp.MustCompile(`\(Ignored: (\d+)\)`)

func c3RunVariant(rc *RunCtx, sc *c3Scenario, v *c3Variant) *c3Out {
	// inputs
	old, _ := os.ReadDir(".")
	for _, e := range old {
		os.RemoveAll(e.Name())
	}
	var stdin bytes.Buffer
	names := make([]string, len(v.Files))
	for i, idxs := range v.Files {
		var b bytes.Buffer
		for _, li := range idxs {
			b.WriteString(sc.Lines[li].Raw)
			b.WriteByte('\n')
		}
		if v.Stdin {
			stdin.Write(b.Bytes())
			continue
		}
		names[i] = fmt.Sprintf("f%d.log", i)
		if v.Roots {
			os.MkdirAll(fmt.Sprintf("r%d/sub", i), 0o755)
			names[i] = fmt.Sprintf("r%d/sub/f%d.log", i, i)
		}
		data := b.Bytes()
		if v.Gz[i] {
			names[i] += ".gz"
			if v.GzMulti != nil && v.GzMulti[i] && len(data) > 1 {
				data = gzMembers(data, []int{len(data) / 2}) // a two-member gzip file
			} else {
				data = gz(data)
			}
		}
		if err := os.WriteFile(names[i], data, 0o644); err != nil {
			panic(err)
		}
	}
	args := append([]string{}, sc.Flags...)
	if !sc.NoMatcher {
		args = append(args, "-m", sc.Regex)
	}
	if sc.Kind == "json-key" {
		args = append(args, "-e", "{.}")
	}
	for _, tp := range sc.Tpls {
		args = append(args, "-e", tp.rare())
	}
	if sc.Ignore != "" {
		args = append(args, "-i", "{eq {1} \""+sc.Ignore+"\"}")
	}
	args = append(args, "--workers", strconv.Itoa(v.Workers), "--batch", strconv.Itoa(v.Batch), "--batch-buffer", strconv.Itoa(v.Buffer))
	if sc.HasCSV {
		args = append(args, "--csv", "out.csv")
	}
	anyGz := false
	for _, z := range v.Gz {
		anyGz = anyGz || z
	}
	if !v.Stdin {
		args = append(args, "--readers", strconv.Itoa(v.Readers))
		if anyGz {
			args = append(args, "-z")
		}
		var files []string
		for _, o := range v.Order {
			if v.Roots {
				files = append(files, fmt.Sprintf("r%d", o))
				continue
			}
			files = append(files, names[o])
		}
		if v.Roots {
			args = append(args, "-R")
		}
		for i := 0; i < sc.Missing; i++ {
			at := (i*7 + len(files)) % (len(files) + 1)
			files = append(files[:at:at], append([]string{fmt.Sprintf("nope-%d.log", i)}, files[at:]...)...)
		}
		args = append(args, files...)
	} else if rc.Tape.WBool(1, 2) {
		args = append(args, "-")
	}
	opts := simrt.Opts{MaxSteps: 600000, IdleLimit: time.Hour, MapSalt: v.Salt}
	opts.RecordTerm = sc.RecordTerm && rc.Mode != simrt.ModeFree
	opts.YieldLatPermille, opts.YieldLatMaxMs = v.YLatPm, v.YLatMs
	if v.ScanBuf > 0 {
		opts.Knobs = map[string]int{"rare/pkg/extractor/batchers.ReadAheadBufferSize": v.ScanBuf}
	}
	if rc.Mode == simrt.ModeFree {
		opts.MapSalt = 0 // leg B: canonical map order, no shared per-site counters
		opts.FreeLimit = 24 * time.Hour
	}
	s := rc.NewSim(opts)
	plan := &simrt.ReadPlan{ErrAt: -1, Chunk: v.Chunk, LatPermille: v.LatPm, LatMaxMs: v.LatMs}
	splan := &simrt.ReadPlan{ErrAt: -1, Chunk: v.Chunk, Stall: true, LatPermille: v.LatPm, LatMaxMs: v.LatMs}
	if rc.Mode == simrt.ModeFree {
		// readers must not synchronise with each other through the tape
		plan.Rng, splan.Rng = simrt.NewLocalRand(rc.Tape), simrt.NewLocalRand(rc.Tape)
	}
	s.FS.Default = plan
	if v.Stdin {
		s.StdinR = &simrt.ScriptReader{Name: "<stdin>", Data: stdin.Bytes(), Plan: splan}
	}
	out := &c3Out{V: v, Sim: s}
	out.Res = runCLI(rc, s, args)
	rc.Absorb(s)
	if sc.HasCSV {
		out.CSV, out.CSVErr = os.ReadFile("out.csv")
	}
	// split the status footer (last non-empty stdout line that carries the rate token) off
	lines := strings.Split(string(out.Res.Stdout), "\n")
	for i := len(lines) - 1; i >= 0; i-- {
		if rateToken.MatchString(lines[i]) {
			out.Status = maskRate(lines[i])
			lines = append(lines[:i], lines[i+1:]...)
			break
		}
	}
	out.Stdout = strings.Join(lines, "\n")
	return out
}

func c3Desc(sc *c3Scenario) map[string]any {
	var tp []string
	for _, t := range sc.Tpls {
		tp = append(tp, t.rare())
	}
	var ls []string
	for i, l := range sc.Lines {
		if i >= 12 {
			ls = append(ls, fmt.Sprintf("… %d more", len(sc.Lines)-12))
			break
		}
		ls = append(ls, l.Raw)
	}
	return map[string]any{"kind": sc.Kind, "flags": sc.Flags, "regex": sc.Regex, "no_matcher": sc.NoMatcher, "extract": tp, "ignore_group1": sc.Ignore, "lines": len(sc.Lines), "first_lines": ls}
}

func init() {
	worlds["C03"] = func(rc *RunCtx) {
		t := rc.Tape
		sc := c3GenScenario(t)
		if t.WBool(1, 8) {
			// some paths on the command line do not exist: read errors (exit status 2) that must not keep the other inputs
			// from being aggregated completely, however many reader slots there are
			sc.Missing = 1 + t.W(3)
		}
		ref := c3Reference(sc)
		desc := c3Desc(sc)
		desc["missing_paths"] = sc.Missing
		rc.Sample = desc
		nVar := t.WRange(3, 5)
		var outs []*c3Out
		for i := 0; i < nVar; i++ {
			v := c3GenVariant(t, sc, i == 0)
			if sc.Missing > 0 {
				v.Stdin = false // file arguments in every variant
			}
			o := c3RunVariant(rc, sc, v)
			outs = append(outs, o)
			if !rc.StdEnd(o.Sim, "termination") {
				rc.Viol[len(rc.Viol)-1].Msg += fmt.Sprintf("\nvariant %d: %s\nscenario: %v", i, v, desc)
				return
			}
			if o.Res.Panicked != "" {
				return
			}
		}
		ctx := func(i int) string {
			return fmt.Sprintf("variant 0: %s\nvariant %d: %s\nscenario: %v", outs[0].V, i, outs[i].V, desc)
		}
		// ---- oracle 1: metamorphic equality ----
		base := outs[0]
		for i, o := range outs[1:] {
			i++
			if o.Res.Exit != base.Res.Exit {
				rc.Violate("meta-exit", "exit status %d vs %d\n%s", base.Res.Exit, o.Res.Exit, ctx(i))
			}
			if sc.HasCSV && !bytes.Equal(o.CSV, base.CSV) {
				rc.Violate("meta-csv", "CSV export differs between two variants of one scenario:\n--- variant 0\n%s\n--- variant %d\n%s\n%s", clip(string(base.CSV), 600), i, clip(string(o.CSV), 600), ctx(i))
			}
			if sc.Kind == "analyze" {
				if !c3AnalyzeClose(base.Stdout, o.Stdout) {
					rc.Violate("meta-stdout", "analyze output differs beyond rounding:\n--- variant 0\n%s\n--- variant %d\n%s\n%s", clip(base.Stdout, 600), i, clip(o.Stdout, 600), ctx(i))
				}
			} else if sc.Kind == "spark-trunc" && o.Stdout != base.Stdout {
				// the truncating sparkline never clears screen lines of rows that Trim deleted: see known_findings.json.
				// What must still agree: the rows that exist (CSV, checked above) and the summary line
				sum := func(s string) string { return c3Summary.FindString(s) }
				if sum(o.Stdout) != sum(base.Stdout) {
					rc.Violate("meta-stdout", "summary differs between two variants: %q vs %q\n%s", sum(base.Stdout), sum(o.Stdout), ctx(i))
				} else {
					rc.Violate("meta-stdout-spark-stale-rows", "[spark-trunc] snapshot output of two variants differs (CSV export and summary agree):\n--- variant 0\n%s\n--- variant %d\n%s\n%s", clip(base.Stdout, 700), i, clip(o.Stdout, 700), ctx(i))
				}
			} else if o.Stdout != base.Stdout && c3Squash(o.Stdout) == c3Squash(base.Stdout) {
				rc.Violate("meta-stdout-padding", "[%s] snapshot output of two variants of one scenario differs only in the amount of padding between cells:\n--- variant 0\n%s\n--- variant %d\n%s\n%s", sc.Kind, clip(base.Stdout, 700), i, clip(o.Stdout, 700), ctx(i))
			} else if o.Stdout != base.Stdout {
				rc.Violate("meta-stdout", "snapshot output differs between two variants of one scenario:\n--- variant 0\n%s\n--- variant %d\n%s\n%s", clip(base.Stdout, 700), i, clip(o.Stdout, 700), ctx(i))
			}
			// the status footer is comparable when the same bytes arrive through the same number of inputs
			if len(o.V.Files) == len(base.V.Files) && o.V.Stdin == base.V.Stdin && o.Status != base.Status {
				rc.Violate("meta-status-line", "final status line differs between two variants with the same number of inputs: %q vs %q\n%s", base.Status, o.Status, ctx(i))
			}
		}
		// ---- oracle 2: reference ----
		before := len(rc.Viol)
		for i, o := range outs {
			c3CheckReference(rc, sc, ref, o, func() string { return ctx(i) })
			if len(rc.Viol) > before {
				break
			}
		}
		multi := 0
		for _, o := range outs {
			multi += o.Sim.MultiChoice
		}
		rc.Nontrivial = multi > 0 && ref.Matched > 0
		rc.Probes["variants"] += int64(len(outs))
		rc.Probes["kind-"+sc.Kind]++
		if ref.ParseErrors > 0 {
			rc.Probes["scenario-with-parse-errors"]++
		}
		rc.Logf("kind=%s variants=%d exit=%d csv=%d bytes", sc.Kind, len(outs), base.Res.Exit, len(base.CSV))
		rc.Logf("%q", base.Stdout)
		rc.Logf("%q", base.CSV)
	}
}

var c3Spaces = regexp.MustCompile(` +`)

// c3Squash collapses runs of spaces (column padding).
func c3Squash(s string) string { return c3Spaces.ReplaceAllString(s, " ") }

func c3AnalyzeClose(a, b string) bool {
	la, lb := strings.Split(a, "\n"), strings.Split(b, "\n")
	if len(la) != len(lb) {
		return false
	}
	num := regexp.MustCompile(`-?[0-9][0-9.,eE+-]*`)
	for i := range la {
		if la[i] == lb[i] {
			continue
		}
		na, nb := num.FindAllString(la[i], -1), num.FindAllString(lb[i], -1)
		if len(na) != len(nb) || num.ReplaceAllString(la[i], "#") != num.ReplaceAllString(lb[i], "#") {
			return false
		}
		for k := range na {
			x, e1 := strconv.ParseFloat(strings.ReplaceAll(na[k], ",", ""), 64)
			y, e2 := strconv.ParseFloat(strings.ReplaceAll(nb[k], ",", ""), 64)
			// numbers are shown with 4 decimals: one unit in the last shown place plus relative slack
			// (mean/stddev are computed incrementally and depend on sample order in the last bits)
			if e1 != nil || e2 != nil || math.Abs(x-y) > 1.01e-4+1e-9*math.Max(math.Abs(x), math.Abs(y)) {
				return false
			}
		}
	}
	return true
}

func c3CheckReference(rc *RunCtx, sc *c3Scenario, ref *c3Ref, o *c3Out, ctx func() string) {
	// summary
	m := c3Summary.FindStringSubmatch(string(o.Res.Stdout))
	if m == nil {
		rc.Violate("ref-summary-missing", "no `Matched: M / R` in the snapshot output %q\n%s", clip(string(o.Res.Stdout), 300), ctx())
		return
	}
	mm, _ := strconv.Atoi(m[1])
	rr, _ := strconv.Atoi(m[2])
	ig := 0
	if x := c3Ignored.FindStringSubmatch(string(o.Res.Stdout)); x != nil {
		ig, _ = strconv.Atoi(x[1])
	}
	if mm != ref.Matched || rr != ref.Read || ig != ref.Ignored {
		rc.Violate("ref-summary", "summary says Matched: %d / %d (Ignored: %d); the reference says %d / %d (Ignored: %d)\n%s", mm, rr, ig, ref.Matched, ref.Read, ref.Ignored, ctx())
	}
	want := 0
	switch {
	case ref.ParseErrors > 0 || sc.Missing > 0:
		want = 2
	case ref.Matched == 0:
		want = 1
	}
	if o.Res.Exit != want {
		rc.Violate("ref-exit", "exit status %d, expected %d (reference: %d parse errors, %d matched)\nstderr: %q\n%s", o.Res.Exit, want, ref.ParseErrors, ref.Matched, clip(string(o.Res.Stderr), 300), ctx())
	}
	if sc.Kind == "histo" {
		c3CheckHistoSnapshot(rc, ref, o, ctx, int64(sc.AtLeast))
	}
	if !sc.HasCSV {
		if sc.Kind == "analyze" {
			c3CheckAnalyze(rc, ref, o, ctx)
		}
		return
	}
	if o.CSVErr != nil {
		rc.Violate("ref-csv-missing", "the CSV export was not written: %v\n%s", o.CSVErr, ctx())
		return
	}
	recs, err := parseRFC4180(o.CSV)
	if err != nil {
		rc.Violate("ref-csv-syntax", "the CSV export is not RFC 4180: %v\n%q\n%s", err, clip(string(o.CSV), 500), ctx())
		return
	}
	if len(recs) == 0 {
		rc.Violate("ref-csv-empty", "the CSV export has no header\n%s", ctx())
		return
	}
	fail := func(f string, a ...any) {
		rc.Violate("ref-csv-content", "%s\nCSV: %q\n%s", fmt.Sprintf(f, a...), clip(string(o.CSV), 600), ctx())
	}
	switch sc.Kind {
	case "histo":
		got := map[string]string{}
		for _, r := range recs[1:] {
			if len(r) != 2 {
				fail("record %q has %d fields", r, len(r))
				return
			}
			if _, dup := got[r[0]]; dup {
				fail("key %q appears twice", r[0])
				return
			}
			got[r[0]] = r[1]
		}
		if len(got) != len(ref.Hist) {
			fail("%d keys exported, reference has %d", len(got), len(ref.Hist))
			return
		}
		for k, v := range ref.Hist {
			if got[k] != strconv.FormatInt(v, 10) {
				fail("key %q exported as %q, reference %d", k, got[k], v)
				return
			}
		}
	case "json-key":
		var counts, wantCounts []int
		for _, r := range recs[1:] {
			if len(r) != 2 {
				fail("record %q has %d fields", r, len(r))
				return
			}
			n, _ := strconv.Atoi(r[1])
			counts = append(counts, n)
		}
		for _, n := range ref.Pairs {
			wantCounts = append(wantCounts, int(n))
		}
		sort.Ints(counts)
		sort.Ints(wantCounts)
		if fmt.Sprint(counts) != fmt.Sprint(wantCounts) {
			rc.Violate("ref-json-key-groups", "keyed by {.}: %d distinct captures (alpha,beta,n) give %d groups with counts %v, expected counts %v: identical matches did not yield identical keys\nCSV: %q\n%s",
				len(wantCounts), len(counts), counts, wantCounts, clip(string(o.CSV), 600), ctx())
		}
	case "table", "heatmap", "spark", "spark-trunc":
		hdr := recs[0]
		if len(hdr) == 0 || hdr[0] != "" {
			fail("header %q does not start with an empty corner cell", hdr)
			return
		}
		cols := hdr[1:]
		if len(cols) != len(ref.Cells) {
			fail("%d columns exported, reference has %d", len(cols), len(ref.Cells))
			return
		}
		if len(recs)-1 != len(ref.Second) {
			fail("%d rows exported, reference has %d", len(recs)-1, len(ref.Second))
			return
		}
		seen := map[string]bool{}
		for _, r := range recs[1:] {
			if len(r) != len(hdr) {
				fail("row %q has %d fields for %d header fields", r, len(r), len(hdr))
				return
			}
			if seen[r[0]] || !ref.Second[r[0]] {
				fail("row key %q duplicated or not in the reference", r[0])
				return
			}
			seen[r[0]] = true
			for ci, c := range cols {
				cm, ok := ref.Cells[c]
				if !ok {
					fail("column %q is not in the reference", c)
					return
				}
				if r[ci+1] != strconv.FormatInt(cm[r[0]], 10) {
					fail("cell (col %q, row %q) exported as %q, reference %d", c, r[0], r[ci+1], cm[r[0]])
					return
				}
			}
		}
	case "bars":
		hdr := recs[0]
		subs := hdr[1:]
		if len(subs) != len(ref.Second) {
			fail("%d sub-keys exported, reference has %d", len(subs), len(ref.Second))
			return
		}
		if len(recs)-1 != len(ref.Cells) {
			fail("%d keys exported, reference has %d", len(recs)-1, len(ref.Cells))
			return
		}
		for _, r := range recs[1:] {
			if len(r) != len(hdr) {
				fail("row %q has %d fields for %d header fields", r, len(r), len(hdr))
				return
			}
			cm, ok := ref.Cells[r[0]]
			if !ok {
				fail("key %q is not in the reference", r[0])
				return
			}
			for si, sk := range subs {
				if !ref.Second[sk] {
					fail("sub-key %q is not in the reference", sk)
					return
				}
				if r[si+1] != strconv.FormatInt(cm[sk], 10) {
					fail("cell (key %q, sub-key %q) exported as %q, reference %d", r[0], sk, r[si+1], cm[sk])
					return
				}
			}
		}
	case "reduce-ordered":
		ng := 0
		for _, f := range sc.Flags {
			if f == "-g" {
				ng++
			}
		}
		if len(recs)-1 != len(ref.Ord) {
			fail("%d groups exported, the sequential fold has %d", len(recs)-1, len(ref.Ord))
			return
		}
		for _, r := range recs[1:] {
			if len(r) != ng+3 {
				fail("row %q has %d fields, expected %d", r, len(r), ng+3)
				return
			}
			w, ok := ref.Ord[strings.Join(r[:ng], "\x00")]
			if !ok {
				fail("group %q is not in the sequential fold", r[:ng])
				return
			}
			for k, name := range []string{"last", "cat", "n"} {
				if r[ng+k] != w[k] {
					fail("group %q: accumulator %s exported as %q, folding the lines in input order gives %q", r[:ng], name, clip(r[ng+k], 200), clip(w[k], 200))
					return
				}
			}
		}
	case "reduce":
		ng := 0
		for _, f := range sc.Flags {
			if f == "-g" {
				ng++
			}
		}
		if len(recs)-1 != len(ref.Red) {
			fail("%d groups exported, reference has %d", len(recs)-1, len(ref.Red))
			return
		}
		for _, r := range recs[1:] {
			if len(r) != ng+3 {
				fail("row %q has %d fields, expected %d", r, len(r), ng+3)
				return
			}
			g := strings.Join(r[:ng], "\x00")
			w, ok := ref.Red[g]
			if !ok {
				fail("group %q is not in the reference", g)
				return
			}
			for k := 0; k < 3; k++ {
				if r[ng+k] != strconv.FormatInt(w[k], 10) {
					fail("group %q column %d exported as %q, reference %d", g, k, r[ng+k], w[k])
					return
				}
			}
		}
	}
}

var c3HistoRow = regexp.MustCompile(`^(.*?) {4,}(-?\d+)(?: |$)`)

// c3CheckHistoSnapshot: the final snapshot of a histogram shows exactly the reference keys and counts
// (the "final output reflects all matches" clause at CLI level). Skipped when a key spans lines.
func c3CheckHistoSnapshot(rc *RunCtx, ref *c3Ref, o *c3Out, ctx func() string, atLeast int64) {
	want := map[string]int64{}
	for k, v := range ref.Hist {
		if v >= atLeast {
			want[k] = v
		}
	}
	for k := range ref.Hist {
		if strings.ContainsAny(k, "\n\r") || strings.Contains(k, "    ") || strings.TrimSpace(k) != k {
			return // (a key that begins or ends with a space cannot be told from the padding around it)
		}
	}
	got := map[string]string{}
	for _, l := range strings.Split(o.Stdout, "\n") {
		if l == "" || strings.HasPrefix(l, "Matched: ") {
			continue
		}
		m := c3HistoRow.FindStringSubmatch(l)
		if m == nil {
			rc.Violate("ref-snapshot-shape", "cannot read the histogram line %q\n%s", l, ctx())
			return
		}
		got[m[1]] = m[2]
	}
	if len(got) != len(want) {
		rc.Violate("ref-snapshot-content", "the final snapshot shows %d keys, the reference has %d (with at least %d)\nsnapshot:\n%s\n%s", len(got), len(want), atLeast, clip(o.Stdout, 600), ctx())
		return
	}
	for k, v := range want {
		if got[k] != strconv.FormatInt(v, 10) {
			rc.Violate("ref-snapshot-content", "the final snapshot shows %q = %q, the reference count is %d\nsnapshot:\n%s\n%s", k, got[k], v, clip(o.Stdout, 600), ctx())
			return
		}
	}
}

func c3CheckAnalyze(rc *RunCtx, ref *c3Ref, o *c3Out, ctx func() string) {
	get := func(label string) (float64, bool) {
		m := regexp.MustCompile(`(?m)^` + label + `:\s+(\S+)`).FindStringSubmatch(string(o.Res.Stdout))
		if m == nil {
			return 0, false
		}
		v, err := strconv.ParseFloat(strings.ReplaceAll(m[1], ",", ""), 64)
		return v, err == nil
	}
	n := float64(len(ref.Nums))
	if v, ok := get("Samples"); !ok || v != n {
		rc.Violate("ref-analyze", "Samples shown as %v, reference %v\n%q\n%s", v, n, clip(string(o.Res.Stdout), 300), ctx())
		return
	}
	if n == 0 {
		return
	}
	sum, mn, mx := 0.0, math.Inf(1), math.Inf(-1)
	for _, x := range ref.Nums {
		sum += x
		mn = math.Min(mn, x)
		mx = math.Max(mx, x)
	}
	mean := sum / n
	for _, c := range []struct {
		l string
		w float64
	}{{"Mean", mean}, {"Min", mn}, {"Max", mx}} {
		v, ok := get(c.l)
		if !ok || math.Abs(v-c.w) > 1e-3*math.Max(1, math.Abs(c.w)) {
			rc.Violate("ref-analyze", "%s shown as %v, reference %v\n%q\n%s", c.l, v, c.w, clip(string(o.Res.Stdout), 300), ctx())
			return
		}
	}
}
