package main

// C10 at the command line: what a user actually types. One scenario draws global output flags
// (--noformat, --nocolor/--color, --nounicode, --notrim), a funcs file (through `--funcs`, i.e. through
// main's start-up sequence and the real loader) whose bodies contain helpers that depend on those flags
// (hi, hf, bytesize, percent, color) next to ordinary scalar helpers, and a call site. Then
//
//	(a) `rare <globals> --funcs F filter -m P -e '{src}:{line} {name args..}' files`  prints exactly what
//	    `rare <globals> filter -m P -e '{src}:{line} <body inlined>' files` prints, under the simulated scheduler
//	    with 1-4 workers;
//	(b) `rare <globals> [--funcs F] expression [--no-optimize] -d .. -k .. T` prints the same text in all four
//	    combinations of {funcs file, inlined} x {optimised, --no-optimize}.
//
// A template that does not compile in its inlined form, or only in its funcs form (an argument the body never
// uses may legitimately fail to compile), is skipped.

import (
	"fmt"
	"os"
	"sort"
	"strconv"
	"strings"
	"time"

	"simrt"
)

var c10CliBodies = []string{
	`{0} of {hi 1000000}`,
	`{hi {0}}`,
	`{hf 1234567.891}`,
	`{hf {0}}`,
	`{bytesize 10485760}`,
	`{bytesize {0}}`,
	`{bytesizesi 10000000}`,
	`{percent 0.256}`,
	`{color red {0}}`,
	`{color red x}`,
	`{upper {0}}-{hi 2000000}`,
	`{if {0} {hi 3000} {hf 0.5}}`,
	`{hi {sumi {0} 1000000}}`,
	`{hi {multi 1000 1000}}`,
	`{1}/{hi 4096}/{0}`,
	`{code}:{hi 123456}`,
	`{coalesce {1} {hi 7777777}}`,
	`{if {0} "yes sir" "no sir"} {hi 5000}`,
	`{hi 1234567} {format "%s units" {0}}`,
}

var c10CliArgs = []string{`{code}`, `{2}`, `{1}`, `1234567`, `42`, `{verb}`, `{sumi {code} 100000}`, `""`, `{3}`}

type c10CliScenario struct {
	Globals   []string
	FuncsText string
	SplitAt   int // > 0: the definitions from this byte offset on go into a second funcs file (--funcs a --funcs b)
	Tpl       string // uses the funcs file
	RefTpl    string // bodies inlined, builtins only
	Workers   int
	Batch     int
}

func c10CliGen(t *simrt.Tape, fns []string) *c10CliScenario {
	sc := &c10CliScenario{}
	for _, g := range []string{"--noformat", "--nounicode", "--notrim"} {
		if t.WBool(1, 2) {
			sc.Globals = append(sc.Globals, g)
		}
	}
	switch t.W(3) {
	case 0:
		sc.Globals = append(sc.Globals, "--nocolor")
	case 1:
		sc.Globals = append(sc.Globals, "--color")
	}
	defs := map[string]*xNode{}
	var file strings.Builder
	var names []string
	nDefs := 1 + t.W(3)
	split := nDefs >= 2 && t.WBool(1, 3)
	var defStart []int
	// (random bodies call builtins only: chaining of definitions is done at the top level of a body, below)
	bg := &xGen{t: t, fns: append([]string{"hi", "hf", "bytesize", "percent"}, xScalar...), inBody: true}
	for i := 0; i < nDefs; i++ {
		name := fmt.Sprintf("uf%d", i+1)
		if i == 0 && (t.WBool(1, 5) || (split && t.WBool(1, 2))) {
			name = []string{"tab", "basename", "dirname", "extname", "repeat"}[t.W(5)] // shadows a builtin the bodies never call
		}
		var bodyText string
		var body *xNode
		if t.WBool(2, 3) {
			bodyText = c10CliBodies[t.W(len(c10CliBodies))]
			if i > 0 && (t.WBool(1, 3) || (split && t.WBool(1, 2))) {
				// a later definition calling an earlier one
				bodyText = "{" + names[t.W(len(names))] + " {0}}+" + bodyText
			}
			body = xParseSimple(bodyText)
		} else {
			body = bg.node(2)
			if body.Kind == xLit && body.S == "" {
				body = &xNode{Kind: xGroup, N: 0}
			}
			bodyText = body.top()
		}
		defs[name] = body
		names = append(names, name)
		defStart = append(defStart, file.Len())
		if t.WBool(1, 3) {
			file.WriteString("# formatting helpers\n")
		}
		text := name + " " + bodyText
		if sp := strings.LastIndex(text, " "); sp > len(name) && t.WBool(1, 3) {
			file.WriteString(text[:sp+1] + "\\\n    " + text[sp+1:])
		} else {
			file.WriteString(text)
		}
		if t.WBool(1, 3) {
			file.WriteString("   # what it is for")
		}
		file.WriteString("\n")
		if t.WBool(1, 4) {
			file.WriteString("\n")
		}
	}
	sc.FuncsText = file.String()
	if split {
		// two funcs files: a definition of the second may call one of the first (or one that replaced a builtin there)
		sc.SplitAt = defStart[1+t.W(nDefs-1)]
	}
	call := &xNode{Kind: xCall, S: names[t.W(len(names))]}
	// at least one argument: `{name}` alone is a key lookup, not a call
	for n := 1 + t.W(3); n > 0; n-- {
		call.Args = append(call.Args, xParseSimple(c10CliArgs[t.W(len(c10CliArgs))]))
	}
	ns := []*xNode{call}
	if t.WBool(1, 3) {
		ns = append(ns, &xNode{Kind: xLit, S: "|"}, xParseSimple(c10CliBodies[t.W(len(c10CliBodies))]))
	}
	sc.Tpl = xPrint(ns)
	var inl []*xNode
	for _, n := range ns {
		inl = append(inl, xInline(n, defs))
	}
	sc.RefTpl = xPrint(inl)
	sc.Workers = t.WRange(1, 4)
	sc.Batch = []int{1, 2, 5, 1000}[t.W(4)]
	return sc
}

// xParseSimple parses the template subset used by the tables above (literals, {N}, {key}, {fn args..},
// quoted "" arguments) into one node; several top-level pieces become a concatenation node "$cat".
func xParseSimple(s string) *xNode {
	var parts []*xNode
	i := 0
	var parseCall func() *xNode
	parseCall = func() *xNode {
		// s[i] == '{'
		i++
		start := i
		for i < len(s) && s[i] != ' ' && s[i] != '}' {
			i++
		}
		head := s[start:i]
		if s[i] == '}' {
			i++
			if n, err := strconv.Atoi(head); err == nil {
				return &xNode{Kind: xGroup, N: n}
			}
			return &xNode{Kind: xKey, S: head}
		}
		n := &xNode{Kind: xCall, S: head}
		for s[i] == ' ' {
			i++
			switch {
			case s[i] == '{':
				n.Args = append(n.Args, parseCall())
			case s[i] == '"':
				j := strings.IndexByte(s[i+1:], '"')
				n.Args = append(n.Args, &xNode{Kind: xLit, S: s[i+1 : i+1+j]})
				i += j + 2
			default:
				st := i
				for s[i] != ' ' && s[i] != '}' {
					i++
				}
				n.Args = append(n.Args, &xNode{Kind: xLit, S: s[st:i]})
			}
		}
		i++ // '}'
		return n
	}
	for i < len(s) {
		if s[i] == '{' {
			parts = append(parts, parseCall())
			continue
		}
		if s[i] == '"' && s == `""` {
			return &xNode{Kind: xLit, S: ""}
		}
		st := i
		for i < len(s) && s[i] != '{' {
			i++
		}
		parts = append(parts, &xNode{Kind: xLit, S: s[st:i]})
	}
	if len(parts) == 1 {
		return parts[0]
	}
	return &xNode{Kind: xCall, S: "$cat", Args: parts}
}

func c10CliWorld(rc *RunCtx) {
	t := rc.Tape
	sc := c10CliGen(t, nil)
	// "$cat" is this file's own notation for juxtaposition: print it as such
	tpl, refTpl := xCatPrint(sc.Tpl), xCatPrint(sc.RefTpl)
	corpus := []string{}
	var data strings.Builder
	for n := t.WRange(3, 12); n > 0; n-- {
		l := genVerbs[t.W(len(genVerbs))] + " " + []string{"200", "404", "1234567", "0", "98765", "1000", "5"}[t.W(7)]
		if t.WBool(2, 3) {
			l += " " + genPaths[t.W(len(genPaths))]
		}
		corpus = append(corpus, l)
		data.WriteString(l + "\n")
	}
	if err := os.WriteFile("in.log", []byte(data.String()), 0o644); err != nil {
		panic(err)
	}
	funcsArgs := []string{"--funcs", "gen.funcs"}
	first := sc.FuncsText
	if sc.SplitAt > 0 {
		first = sc.FuncsText[:sc.SplitAt]
		if err := os.WriteFile("gen2.funcs", []byte(sc.FuncsText[sc.SplitAt:]), 0o644); err != nil {
			panic(err)
		}
		funcsArgs = append(funcsArgs, "--funcs", "gen2.funcs")
		rc.Probes["cli-two-funcs-files"]++
	}
	if err := os.WriteFile("gen.funcs", []byte(first), 0o644); err != nil {
		panic(err)
	}
	desc := map[string]any{"family": "cli", "globals": sc.Globals, "funcs_file": sc.FuncsText, "second_funcs_file_from_byte": sc.SplitAt, "template": tpl, "inlined": refTpl, "workers": sc.Workers, "batch": sc.Batch, "lines": len(corpus)}
	rc.Sample = desc
	run := func(args []string) *cliResult {
		if len(args) >= 2 && args[0] == "\x00env" {
			os.Setenv("RARE_FUNC_FILES", args[1])
			defer os.Unsetenv("RARE_FUNC_FILES")
			args = args[2:]
		}
		s := rc.NewSim(simrt.Opts{MaxSteps: 400000, IdleLimit: time.Hour})
		res := runCLI(rc, s, args)
		rc.Absorb(s)
		if !rc.StdEnd(s, "cli-termination") {
			return nil
		}
		return res
	}
	// the funcs files may also be named through the environment (RARE_FUNC_FILES, comma-separated) instead of --funcs
	viaEnv := t.WBool(1, 4)
	if viaEnv {
		var names []string
		for i := 1; i < len(funcsArgs); i += 2 {
			names = append(names, funcsArgs[i])
		}
		funcsArgs = []string{"\x00env", strings.Join(names, ",")}
		rc.Probes["cli-funcs-through-environment"]++
	}
	withFuncs := func(base []string) []string {
		if viaEnv {
			return append(append([]string{funcsArgs[0], funcsArgs[1]}, sc.Globals...), base...)
		}
		return append(append(append([]string{}, sc.Globals...), funcsArgs...), base...)
	}
	plain := func(base []string) []string { return append(append([]string{}, sc.Globals...), base...) }
	sortedLines := func(b []byte) []string {
		ls := strings.Split(strings.TrimSuffix(string(b), "\n"), "\n")
		sort.Strings(ls)
		return ls
	}
	// ---- (a) filter ----
	fa := func(tp string) []string {
		return []string{"filter", "-m", c10Pattern, "-e", "{src}:{line} [" + tp + "]", "--workers", strconv.Itoa(sc.Workers), "--batch", strconv.Itoa(sc.Batch), "in.log"}
	}
	ref := run(plain(fa(refTpl)))
	if ref == nil {
		return
	}
	if ref.Exit != 0 && ref.Exit != 1 {
		rc.Probes["cli-template-unusable"]++
		rc.Logf("cli unusable exit=%d", ref.Exit)
		return
	}
	got := run(withFuncs(fa(tpl)))
	if got == nil {
		return
	}
	if strings.Contains(string(got.Stderr), "Error creating function") {
		// the loader rejected a definition and said so (a constant argument that a helper cannot take, ...): nothing was
		// loaded under that name. With a name that is also a builtin's the call then resolves to the builtin - the property
		// speaks of functions that were loaded
		rc.Probes["cli-funcs-definition-rejected-by-loader"]++
		return
	}
	if got.Exit != ref.Exit {
		if got.Exit == 2 && strings.Contains(string(got.Stderr), "rror") {
			rc.Probes["cli-funcs-form-does-not-compile"]++
			rc.Logf("cli funcs form exit=%d", got.Exit)
			return
		}
		rc.Violate("cli-funcs-exit", "`rare %s` exits %d, the inlined `rare %s` exits %d\nstderr: %q\nfuncs file:\n%s", strings.Join(withFuncs(fa(tpl)), " "), got.Exit, strings.Join(plain(fa(refTpl)), " "), ref.Exit, clip(string(got.Stderr), 300), sc.FuncsText)
		return
	}
	a, b := sortedLines(got.Stdout), sortedLines(ref.Stdout)
	if strings.Join(a, "\n") != strings.Join(b, "\n") {
		first := ""
		for i := 0; i < len(a) || i < len(b); i++ {
			var x, y string
			if i < len(a) {
				x = a[i]
			}
			if i < len(b) {
				y = b[i]
			}
			if x != y {
				first = fmt.Sprintf("with --funcs: %q\ninlined:      %q", x, y)
				break
			}
		}
		rc.Violate("cli-funcs-file-differs", "under the global flags %v a function from a funcs file does not behave like its body written inline:\n%s\ntemplate %q, inlined %q\nfuncs file:\n%s", sc.Globals, first, tpl, refTpl, sc.FuncsText)
		return
	}
	rc.Probes["cli-filter-compared"]++
	// ---- (b) expression, optimised vs --no-optimize, funcs vs inline ----
	for k := 0; k < 2 && k < len(corpus); k++ {
		f := strings.Fields(corpus[t.W(len(corpus))])
		for len(f) < 3 {
			f = append(f, "")
		}
		ea := func(tp string, noopt bool) []string {
			out := []string{"expression"}
			if noopt {
				out = append(out, "--no-optimize")
			}
			out = append(out, "-d", strings.Join(f, " "), "-d", f[0], "-d", f[1])
			if f[2] != "" {
				out = append(out, "-d", f[2])
			}
			out = append(out, "-k", "verb="+f[0], "-k", "code="+f[1], "-k", "path="+f[2], tp)
			return out
		}
		type form struct {
			name string
			args []string
		}
		forms := []form{
			{"inlined, --no-optimize", plain(ea(refTpl, true))},
			{"inlined, optimised", plain(ea(refTpl, false))},
			{"funcs file, --no-optimize", withFuncs(ea(tpl, true))},
			{"funcs file, optimised", withFuncs(ea(tpl, false))},
		}
		var base *cliResult
		for i, fm := range forms {
			r := run(fm.args)
			if r == nil {
				return
			}
			if i == 0 {
				if r.Exit != 0 {
					rc.Probes["cli-expression-unusable"]++
					break
				}
				base = r
				continue
			}
			if r.Exit != 0 {
				if strings.HasPrefix(fm.name, "funcs") {
					rc.Probes["cli-funcs-form-does-not-compile"]++
					continue
				}
				rc.Violate("cli-expression-exit", "`rare %s` exits %d although the un-optimised form evaluates\nstderr: %q", strings.Join(fm.args, " "), r.Exit, clip(string(r.Stderr), 300))
				return
			}
			if string(r.Stdout) != string(base.Stdout) {
				rc.Violate("cli-expression-differs", "`rare expression` prints %q (%s) but %q (%s)\n  rare %s\n  rare %s\nfuncs file:\n%s", r.Stdout, fm.name, base.Stdout, forms[0].name,
					strings.Join(fm.args, " "), strings.Join(forms[0].args, " "), sc.FuncsText)
				return
			}
			rc.Probes["cli-expression-compared"]++
		}
	}
	rc.Nontrivial = rc.Multi > 0
	rc.Logf("cli globals=%v tpl=%q ref=%q out=%q", sc.Globals, tpl, refTpl, ref.Stdout)
}

// xCatPrint turns this file's "{$cat a b}" notation back into juxtaposition.
func xCatPrint(s string) string {
	for {
		i := strings.Index(s, "{$cat ")
		if i < 0 {
			return s
		}
		// find the matching brace
		depth, j := 0, i
		for ; j < len(s); j++ {
			if s[j] == '{' {
				depth++
			} else if s[j] == '}' {
				depth--
				if depth == 0 {
					break
				}
			}
		}
		inner := s[i+len("{$cat ") : j]
		// split the arguments at depth 0 and glue them together; literal arguments lose their quotes
		var parts []string
		d, st := 0, 0
		inQ := false
		for k := 0; k <= len(inner); k++ {
			if k == len(inner) || (inner[k] == ' ' && d == 0 && !inQ) {
				p := inner[st:k]
				if len(p) >= 2 && p[0] == '"' && p[len(p)-1] == '"' {
					p = p[1 : len(p)-1]
				}
				parts = append(parts, p)
				st = k + 1
				continue
			}
			switch inner[k] {
			case '{':
				d++
			case '}':
				d--
			case '"':
				inQ = !inQ
			}
		}
		s = s[:i] + strings.Join(parts, "") + s[j+1:]
	}
}
