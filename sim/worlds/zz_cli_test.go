package main

// In-process CLI harness: the real cliMain runs as the simulated main goroutine; stdout/stderr are
// per-run scratch files, logger.OsExit is trapped, the process-global switches are reset first.

import (
	"fmt"
	"os"
	"path/filepath"
	"strings"

	"github.com/urfave/cli/v2"

	"rare/cmd/helpers"
	"rare/pkg/color"
	"rare/pkg/expressions/funclib"
	"rare/pkg/expressions/stdlib"
	"rare/pkg/humanize"
	"rare/pkg/logger"
	"rare/pkg/multiterm"
	"rare/pkg/multiterm/termunicode"
	"simrt"
)

type cliExit struct{ code int }

type cliResult struct {
	Stdout   []byte
	Stderr   []byte
	Exit     int
	ErrMsg   string
	Panicked string
}

var cliSeq int

// the process's real stdout/stderr, restored unconditionally after every CLI bubble (a run that
// deadlocks or panics never reaches its own restore)
var realStdout, realStderr = os.Stdout, os.Stderr
var realOsExit = logger.OsExit

// resetGlobals puts rare's process-global switches back to their start-up values.
func resetGlobals() {
	color.Enabled = false
	humanize.Enabled = true
	multiterm.AutoTrim = true
	termunicode.UnicodeEnabled = true
	stdlib.DisableLoad = false
	for k := range funclib.Additional {
		delete(funclib.Additional, k)
	}
}

// cliProc is one in-process invocation of rare: begin swaps the process-wide stdout/stderr/exit for per-run scratch files,
// exec runs cliMain in the calling (simulated) goroutine, end restores everything and collects the output. A world may run
// exec in a goroutine of its own (follow mode never returns under -F) and read OutName while it runs; end is then called
// by the world's driver and is safe whether or not exec returned.
type cliProc struct {
	Res              *cliResult
	OutName, ErrName string
	outF, errF       *os.File
	oldOut, oldErr   *os.File
	oldExit          func(int)
	Done             bool
	ended            bool
}

func cliBegin() *cliProc {
	cliSeq++
	c := &cliProc{Res: &cliResult{}}
	// outside the run directory: a glob argument must not be able to match them
	c.OutName = filepath.Join(baseDir, fmt.Sprintf("stdout-%d", cliSeq))
	c.ErrName = filepath.Join(baseDir, fmt.Sprintf("stderr-%d", cliSeq))
	var err error
	if c.outF, err = os.Create(c.OutName); err != nil {
		panic(err)
	}
	if c.errF, err = os.Create(c.ErrName); err != nil {
		panic(err)
	}
	c.oldOut, c.oldErr, c.oldExit = os.Stdout, os.Stderr, logger.OsExit
	os.Stdout, os.Stderr = c.outF, c.errF
	// make the logger write to the swapped stderr
	logger.DeferLogs()
	logger.ImmediateLogs()
	logger.OsExit = func(code int) { panic(cliExit{code}) }
	resetGlobals()
	return c
}

func (c *cliProc) exec(args []string) {
	res := c.Res
	defer func() {
		if r := recover(); r != nil {
			if ce, ok := r.(cliExit); ok {
				res.Exit = ce.code
				c.Done = true
				return
			}
			panic(r)
		}
	}()
	err := cliMain(append([]string{"rare"}, args...)...)
	if err != nil {
		res.ErrMsg = err.Error()
		if res.ErrMsg != "" {
			logger.Print(res.ErrMsg)
		}
		if v, ok := err.(cli.ExitCoder); ok {
			res.Exit = v.ExitCode()
		} else {
			res.Exit = helpers.ExitCodeInvalidUsage
		}
	}
	c.Done = true
}

func (c *cliProc) end() *cliResult {
	if c.ended {
		return c.Res
	}
	c.ended = true
	logger.ImmediateLogs()
	os.Stdout, os.Stderr, logger.OsExit = c.oldOut, c.oldErr, c.oldExit
	logger.DeferLogs()
	logger.ImmediateLogs()
	c.outF.Close()
	c.errF.Close()
	c.Res.Stdout, _ = os.ReadFile(c.OutName)
	c.Res.Stderr, _ = os.ReadFile(c.ErrName)
	os.Remove(c.OutName)
	os.Remove(c.ErrName)
	return c.Res
}

// runCLIInSim executes `rare args...` as the body of a simulated main goroutine. It must be called
// from inside s.Run's main function. Output files live outside the current (run) directory.
func runCLIInSim(args []string) *cliResult {
	c := cliBegin()
	c.exec(args)
	return c.end()
}

// runCLI runs one CLI invocation in its own bubble.
func runCLI(rc *RunCtx, s *simrt.Sim, args []string) *cliResult {
	var res *cliResult
	s.Run(rc.T, func() {
		res = runCLIInSim(args)
		simrt.Yield("world:cli-returned")
	})
	os.Stdout, os.Stderr, logger.OsExit = realStdout, realStderr, realOsExit
	if res == nil {
		res = &cliResult{Exit: -1, Panicked: strings.Join(s.Panics, "\n")}
	}
	return res
}
