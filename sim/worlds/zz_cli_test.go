package main

// In-process CLI harness: the real cliMain runs as the simulated main goroutine; stdout/stderr are
// per-run scratch files, logger.OsExit is trapped, the process-global switches are reset first.

import (
	"fmt"
	"os"
	"path/filepath"
	"strings"

	"github.com/urfave/cli/v2"

	"rare/cmd/helpers"
	"rare/pkg/color"
	"rare/pkg/expressions/funclib"
	"rare/pkg/expressions/stdlib"
	"rare/pkg/humanize"
	"rare/pkg/logger"
	"rare/pkg/multiterm"
	"rare/pkg/multiterm/termunicode"
	"simrt"
)

type cliExit struct{ code int }

type cliResult struct {
	Stdout   []byte
	Stderr   []byte
	Exit     int
	ErrMsg   string
	Panicked string
}

var cliSeq int

// the process's real stdout/stderr, restored unconditionally after every CLI bubble (a run that
// deadlocks or panics never reaches its own restore)
var realStdout, realStderr = os.Stdout, os.Stderr
var realOsExit = logger.OsExit

// resetGlobals puts rare's process-global switches back to their start-up values.
func resetGlobals() {
	color.Enabled = false
	humanize.Enabled = true
	multiterm.AutoTrim = true
	termunicode.UnicodeEnabled = true
	stdlib.DisableLoad = false
	for k := range funclib.Additional {
		delete(funclib.Additional, k)
	}
}

// runCLIInSim executes `rare args...` as the body of a simulated main goroutine. It must be called
// from inside s.Run's main function. Output files live in the current (run) directory.
func runCLIInSim(args []string) *cliResult {
	cliSeq++
	res := &cliResult{}
	// outside the run directory: a glob argument must not be able to match them
	outName := filepath.Join(baseDir, fmt.Sprintf("stdout-%d", cliSeq))
	errName := filepath.Join(baseDir, fmt.Sprintf("stderr-%d", cliSeq))
	outF, err := os.Create(outName)
	if err != nil {
		panic(err)
	}
	errF, err := os.Create(errName)
	if err != nil {
		panic(err)
	}
	oldOut, oldErr, oldExit := os.Stdout, os.Stderr, logger.OsExit
	os.Stdout, os.Stderr = outF, errF
	// make the logger write to the swapped stderr
	logger.DeferLogs()
	logger.ImmediateLogs()
	logger.OsExit = func(code int) { panic(cliExit{code}) }
	resetGlobals()
	func() {
		defer func() {
			if r := recover(); r != nil {
				if ce, ok := r.(cliExit); ok {
					res.Exit = ce.code
					return
				}
				panic(r)
			}
		}()
		err := cliMain(append([]string{"rare"}, args...)...)
		if err != nil {
			res.ErrMsg = err.Error()
			if res.ErrMsg != "" {
				logger.Print(res.ErrMsg)
			}
			if v, ok := err.(cli.ExitCoder); ok {
				res.Exit = v.ExitCode()
			} else {
				res.Exit = helpers.ExitCodeInvalidUsage
			}
		}
	}()
	logger.ImmediateLogs()
	os.Stdout, os.Stderr, logger.OsExit = oldOut, oldErr, oldExit
	logger.DeferLogs()
	logger.ImmediateLogs()
	outF.Close()
	errF.Close()
	res.Stdout, _ = os.ReadFile(outName)
	res.Stderr, _ = os.ReadFile(errName)
	os.Remove(outName)
	os.Remove(errName)
	return res
}

// runCLI runs one CLI invocation in its own bubble.
func runCLI(rc *RunCtx, s *simrt.Sim, args []string) *cliResult {
	var res *cliResult
	s.Run(rc.T, func() {
		res = runCLIInSim(args)
		simrt.Yield("world:cli-returned")
	})
	os.Stdout, os.Stderr, logger.OsExit = realStdout, realStderr, realOsExit
	if res == nil {
		res = &cliResult{Exit: -1, Panicked: strings.Join(s.Panics, "\n")}
	}
	return res
}
