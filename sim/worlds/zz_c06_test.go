package main

// C06 world: `rare filter -e '{src}:{line}:{0}' [-z] [-R] [tuning] args…` in-process over a generated
// scratch directory tree (nested directories, empty/plain/gzip/corrupt-header/truncated/bit-flipped
// gzip files, names with glob metacharacters), arguments of every form (path, missing path,
// directory, glob with 0/1/many matches, -R dir, "-", none), and in the fault sub-batch one injected
// open failure or read error. Oracle: reference expansion + per-input expected lines + open counts
// from the fs seam + exit-status table.

import (
	"bytes"
	"compress/gzip"
	"fmt"
	"io"
	"os"
	"path/filepath"
	"regexp"
	"sort"
	"strconv"
	"strings"
	"time"

	"simrt"
)

type c06File struct {
	Path  string
	Kind  string // plain, empty, gz, gz-badheader, gz-trunc, gz-flip
	Raw   []byte // bytes on disk
	Plain []byte // decompressed content (gz kinds)
}

func gz(data []byte) []byte {
	var b bytes.Buffer
	w := gzip.NewWriter(&b)
	w.Write(data)
	w.Close()
	return b.Bytes()
}

var c06Names = []string{"a.log", "b.log", "c.txt", "a1.log", "a[1].log", "q?.log", "st*r.log", "x.gz", "y.log.gz", "z", "0", "é.log", "100%d.log", "b%s.txt"}
var c06Dirs = []string{"", "d0", "d0/s", "d1", "d[2]"}

func c06SmallCorpus(t *simrt.Tape) []byte {
	n := t.W(9)
	var b bytes.Buffer
	if t.WBool(1, 10) {
		// one to three bytes
		return []byte([]string{"A", "\n", "a\n", "ab", "\r\n", "x\ny", "\x1f", "\x1f\x8b"}[t.W(8)])
	}
	for i := 0; i < n; i++ {
		b.WriteString(genLine(t))
		if i == n-1 && t.WBool(1, 3) {
			break
		}
		if t.WBool(1, 6) {
			b.WriteString("\r\n")
		} else {
			b.WriteString("\n")
		}
	}
	return b.Bytes()
}

type c06Expect struct {
	Path     string
	Mentions int
	Fails    bool   // an open/read failure is expected for every mention
	OpenFail bool   // the failure is at open
	Lines    []string // reference lines (for Fails: the lines of which a prefix may be delivered)
	Unchecked bool  // content not predictable (bit-flipped gzip)
	Why      string
}

func init() {
	worlds["C06"] = func(rc *RunCtx) {
		t := rc.Tape
		// ---- the tree ----
		files := map[string]*c06File{}
		var order []string
		for _, d := range c06Dirs[1:] {
			if t.WBool(3, 4) {
				os.MkdirAll(d, 0o755)
			}
		}
		nFiles := t.WRange(2, 10)
		for i := 0; i < nFiles; i++ {
			d := c06Dirs[t.W(len(c06Dirs))]
			if d != "" {
				if fi, err := os.Stat(d); err != nil || !fi.IsDir() {
					d = ""
				}
			}
			p := filepath.Join(d, c06Names[t.W(len(c06Names))])
			if _, dup := files[p]; dup {
				continue
			}
			f := &c06File{Path: p}
			content := c06SmallCorpus(t)
			switch t.W(10) {
			case 0:
				f.Kind = "empty"
			case 1, 2, 3:
				f.Kind, f.Plain, f.Raw = "gz", content, gzMembers(content, gzCuts(t, len(content)))
			case 4:
				f.Kind = "gz-badheader"
				f.Raw = append([]byte{0x1f, 0x8b, 0x07, 0, 0, 0, 0, 0, 0, 3}, content...)
			case 5:
				full := gz(append(content, []byte("tail line one\ntail line two\n")...))
				f.Kind, f.Plain = "gz-trunc", append(content, []byte("tail line one\ntail line two\n")...)
				cut := 11 + t.W(len(full)-11-8)
				f.Raw = full[:cut]
			case 6:
				full := gz(append(content, []byte("payload\n")...))
				f.Kind, f.Plain = "gz-flip", append(content, []byte("payload\n")...)
				pos := 10 + t.W(len(full)-10)
				f.Raw = append([]byte(nil), full...)
				f.Raw[pos] ^= byte(1 << t.W(8))
			default:
				f.Kind, f.Raw = "plain", content
			}
			if err := os.WriteFile(p, f.Raw, 0o644); err != nil {
				panic(err)
			}
			files[p] = f
			order = append(order, p)
		}
		// symbolic links inside the tree (one run in three): to a regular file (read like the file, under the link's name), to a
		// directory (-R hands it out as an entry that is not a directory: a read error) or to nothing (an open error). The
		// regular files next to them are still read exactly once each.
		if t.WBool(1, 3) {
			for n := 1 + t.W(2); n > 0; n-- {
				d := c06Dirs[t.W(len(c06Dirs))]
				if d != "" {
					if fi, err := os.Stat(d); err != nil || !fi.IsDir() {
						d = ""
					}
				}
				link := filepath.Join(d, []string{"ln-a", "b0-link", "m.lnk"}[t.W(3)])
				if _, err := os.Lstat(link); err == nil {
					continue
				}
				switch t.W(3) {
				case 0:
					if len(order) == 0 {
						continue
					}
					target := order[t.W(len(order))]
					abs, _ := filepath.Abs(target)
					if err := os.Symlink(abs, link); err != nil {
						panic(err)
					}
					cp := *files[target]
					cp.Path = link
					files[link] = &cp
					rc.Probes["symlink-to-file"]++
				case 1:
					abs, _ := filepath.Abs(c06Dirs[1+t.W(len(c06Dirs)-1)])
					if fi, err := os.Stat(abs); err != nil || !fi.IsDir() {
						continue
					}
					if err := os.Symlink(abs, link); err != nil {
						panic(err)
					}
					rc.Probes["symlink-to-directory"]++
				default:
					if err := os.Symlink("nowhere-at-all", link); err != nil {
						panic(err)
					}
					rc.Probes["symlink-dangling"]++
				}
			}
		}
		sort.Strings(order)
		// ---- the command line ----
		gunzip := t.WBool(1, 2)
		recursive := t.WBool(1, 3)
		useStdin := t.WBool(1, 6)
		var args []string
		var stdinData []byte
		if useStdin {
			gunzip = false // "Cannot decompress (-z) with stdin" is a usage error
			stdinData = c06SmallCorpus(t)
			if t.WBool(1, 2) {
				stdinData = genCorpus(t, 40) // a longer stream: several time flushes, a batch channel that fills up
			}
			if t.WBool(1, 2) {
				args = []string{"-"}
			}
		} else {
			for n := t.WRange(1, 5); n > 0; n-- {
				switch t.W(12) {
				case 0, 1, 2, 3:
					args = append(args, order[t.W(len(order))])
				case 4:
					args = append(args, filepath.Join(c06Dirs[t.W(len(c06Dirs))], "nope.log"))
				case 5, 6:
					d := c06Dirs[1+t.W(len(c06Dirs)-1)]
					args = append(args, d)
				case 7, 8:
					args = append(args, filepath.Join(c06Dirs[t.W(len(c06Dirs))], []string{"*.log", "*", "?.log", "a*", "*.gz", "zz*"}[t.W(6)]))
				case 9:
					args = append(args, []string{"a[1].log", "d[2]/a.log", "q?.log", "a[12].log", "[", "d0/s/*"}[t.W(6)])
				default:
					args = append(args, order[t.W(len(order))])
				}
			}
		}
		readers := t.WRange(1, 3)
		if t.WBool(1, 6) {
			readers = 1
		}
		workers := t.WRange(1, 3)
		if readers == 1 && t.WBool(1, 2) {
			workers = 1
		}
		flags := []string{"--nocolor", "filter", "-e", "{src}:{line}:{0}", "--readers", strconv.Itoa(readers), "--batch", strconv.Itoa([]int{1, 2, 3, 1000}[t.W(4)]),
			"--workers", strconv.Itoa(workers), "--batch-buffer", strconv.Itoa(t.WRange(1, 4))}
		if gunzip {
			flags = append(flags, "-z")
		}
		if recursive {
			flags = append(flags, "-R")
		}
		// ---- reference expansion ----
		var mentions []string
		walkLinks := map[string]int{} // symbolic links that a -R walk comes across, with the number of times
		pathErr := 0
		if !useStdin {
			for _, a := range args {
				if recursive {
					if fi, err := os.Stat(a); err == nil && fi.IsDir() {
						for _, m := range c06Walk(a) {
							mentions = append(mentions, m)
							if li, err := os.Lstat(m); err == nil && li.Mode()&os.ModeSymlink != 0 {
								walkLinks[m]++
							}
						}
						continue
					}
				}
				ms, bad := c06Glob(a)
				switch {
				case bad:
					pathErr++
				case len(ms) > 0:
					mentions = append(mentions, ms...)
				default:
					mentions = append(mentions, a)
				}
			}
		}
		// ---- faults ----
		c06Opts := simrt.Opts{MaxSteps: 400000, IdleLimit: time.Hour}
		if t.FBool(1, 4) || (useStdin && t.FBool(1, 2)) {
			// slow stages: any goroutine may lose some fake milliseconds at a yield (with a slow consumer the batch channel
			// fills up while the stdin producer pauses and resumes)
			c06Opts.YieldLatPermille = []int{5, 40, 200}[t.F(3)]
			c06Opts.YieldLatMaxMs = []int{3, 40, 150}[t.F(3)]
		}
		if t.FBool(1, 2) {
			c06Opts.Knobs = map[string]int{"rare/pkg/extractor/batchers.ReadAheadBufferSize": []int{1, 4, 9, 32, 128, 1024}[t.F(6)]}
		}
		s := rc.NewSim(c06Opts)
		legal := &simrt.ReadPlan{ErrAt: -1, Chunk: t.FBool(1, 2)}
		if t.FBool(1, 3) {
			legal.LatPermille, legal.LatMaxMs = 300, 40
		}
		s.FS.Default = legal
		faultPath, faultKind, faultAt := "", "", int64(-1)
		stdinErrAt := int64(-1)
		if rc.Faults && len(mentions) > 0 && t.FBool(4, 5) {
			// only regular files that are read as they are on disk get a positional read error
			cand := mentions[t.F(len(mentions))]
			if f := files[cand]; f != nil {
				if t.FBool(1, 3) {
					faultPath, faultKind = cand, "open"
					s.FS.SetPlan(cand, &simrt.ReadPlan{ErrAt: -1, OpenErr: true})
				} else if !(gunzip && strings.HasPrefix(f.Kind, "gz") && f.Kind != "gz-badheader") {
					faultPath, faultKind = cand, "read"
					faultAt = int64(t.F(len(f.Raw) + 1))
					s.FS.SetPlan(cand, &simrt.ReadPlan{ErrAt: faultAt, ErrWithData: t.FBool(1, 2), Chunk: legal.Chunk})
				}
			}
		}
		if useStdin {
			// a producer that pauses: the 250ms time flush of the stdin path fires with partial batches pending
			sp := &simrt.ReadPlan{ErrAt: -1, Chunk: true, Stall: t.FBool(1, 3)}
			if t.FBool(1, 2) {
				sp.LatPermille = []int{200, 600, 1000}[t.F(3)]
				sp.LatMaxMs = []int{40, 300, 700}[t.F(3)]
			}
			if rc.Faults && t.FBool(1, 3) {
				// a read fault on standard input (EIO mid-stream, a closed descriptor)
				stdinErrAt = int64(t.F(len(stdinData) + 1))
				sp.ErrAt, sp.ErrWithData = stdinErrAt, t.FBool(1, 2)
			}
			s.StdinR = &simrt.ScriptReader{Name: "<stdin>", Data: stdinData, Plan: sp}
		}
		// ---- expectations ----
		exp := map[string]*c06Expect{}
		var expOrder []string
		for _, m := range mentions {
			e := exp[m]
			if e == nil {
				e = &c06Expect{Path: m}
				exp[m] = e
				expOrder = append(expOrder, m)
				fi, err := os.Stat(m)
				f := files[m]
				switch {
				case err != nil:
					e.Fails, e.OpenFail, e.Why = true, true, "missing path"
				case fi.IsDir():
					e.Fails, e.Why = true, "directory given as a file"
				case f == nil:
					panic("file not in the model: " + m)
				case m == faultPath && faultKind == "open":
					e.Fails, e.OpenFail, e.Why = true, true, "injected open failure"
				case m == faultPath && faultKind == "read":
					e.Fails, e.Why = true, fmt.Sprintf("injected read error at byte %d", faultAt)
					e.Lines = c06Lines(f.Raw[:faultAt])
				case !gunzip || f.Kind == "plain" || f.Kind == "empty" || f.Kind == "gz-badheader":
					e.Lines = c06Lines(f.Raw)
				default:
					// gzip content under -z: stdlib gzip on a private copy says what a reader gets
					data, gerr := c06Gunzip(f.Raw)
					switch {
					case gerr == nil:
						e.Lines = c06Lines(data)
					case f.Kind == "gz-flip":
						e.Fails, e.Unchecked, e.Why = true, true, "bit-flipped gzip stream: "+gerr.Error()
					default:
						e.Fails, e.Why = true, f.Kind+": "+gerr.Error()
						e.Lines = c06Lines(f.Plain)
					}
				}
			}
			e.Mentions++
		}
		if useStdin {
			exp["<stdin>"] = &c06Expect{Path: "<stdin>", Mentions: 1, Lines: c06Lines(stdinData)}
			if stdinErrAt >= 0 {
				exp["<stdin>"] = &c06Expect{Path: "<stdin>", Mentions: 1, Fails: true, Why: fmt.Sprintf("injected read error at byte %d of standard input", stdinErrAt), Lines: c06Lines(stdinData[:stdinErrAt])}
			}
			expOrder = append(expOrder, "<stdin>")
		}
		sample := map[string]any{"args": append(append([]string{}, flags...), args...), "tree": func() []string {
			var o []string
			for _, p := range order {
				o = append(o, fmt.Sprintf("%s (%s, %d bytes)", p, files[p].Kind, len(files[p].Raw)))
			}
			return o
		}(), "mentions": mentions, "fault": fmt.Sprintf("%s %s %d", faultKind, faultPath, faultAt)}
		rc.Sample = sample
		desc := fmt.Sprintf("%v", sample)

		// ---- run ----
		res := runCLI(rc, s, append(flags, args...))
		rc.Absorb(s)
		if !rc.StdEnd(s, "termination") {
			return
		}
		// the property speaks of the regular files below a -R directory: a walk that hands symbolic links out (as the
		// pinned tree does) is held to the expectations above, one that leaves them alone is just as good
		if len(walkLinks) > 0 {
			opened := map[string]int{}
			for _, ev := range s.FS.Log {
				if ev.Op == "open" || ev.Op == "open-fail" {
					opened[ev.Path]++
				}
			}
			for p, n := range walkLinks {
				e := exp[p]
				if e == nil || opened[p] != e.Mentions-n {
					continue
				}
				rc.Probes["walk-left-symlink-alone"]++
				if e.Mentions -= n; e.Mentions == 0 {
					delete(exp, p)
					for i, q := range expOrder {
						if q == p {
							expOrder = append(expOrder[:i:i], expOrder[i+1:]...)
							break
						}
					}
				}
			}
		}
		// ---- stdout ----
		got := map[string][][2]string{}
		outLines := bytes.Split(res.Stdout, []byte("\n"))
		if n := len(outLines); n > 0 && len(outLines[n-1]) == 0 {
			outLines = outLines[:n-1]
		}
		for _, l := range outLines {
			src, rest, ok := strings.Cut(string(l), ":")
			var no, text string
			if ok {
				no, text, ok = strings.Cut(rest, ":")
			}
			if !ok {
				rc.Violate("stdout-shape", "stdout line %q is not src:line:text\n%s", l, desc)
				return
			}
			got[src] = append(got[src], [2]string{no, text})
		}
		anyFail := false
		total := 0
		for _, p := range expOrder {
			e := exp[p]
			if e.Fails {
				anyFail = true
			}
			g := got[p]
			delete(got, p)
			if e.Unchecked {
				total += len(g)
				continue
			}
			cnt := map[[2]string]int{}
			for _, x := range g {
				cnt[x]++
			}
			if !e.Fails {
				total += len(g)
				for i, l := range e.Lines {
					k := [2]string{strconv.Itoa(i + 1), l}
					if cnt[k] != e.Mentions {
						rc.Violate("lines", "input %s (mentioned %d times): line %d %q was delivered %d times\n%s", p, e.Mentions, i+1, clip(l, 80), cnt[k], desc)
						return
					}
					delete(cnt, k)
				}
				for k, n := range cnt {
					rc.Violate("lines-extra", "input %s: %d unexpected output lines, e.g. line %s %q\n%s", p, n, k[0], clip(k[1], 80), desc)
					return
				}
			} else {
				total += len(g)
				partial := 0
				for k, n := range cnt {
					no, _ := strconv.Atoi(k[0])
					if no < 1 || no > len(e.Lines) {
						rc.Violate("lines-failed-input", "failed input %s (%s): delivered line %s %q, but it has only %d lines\n%s", p, e.Why, k[0], clip(k[1], 80), len(e.Lines), desc)
						return
					}
					if n > e.Mentions {
						rc.Violate("lines-failed-input", "failed input %s (%s): line %s delivered %d times for %d mentions\n%s", p, e.Why, k[0], n, e.Mentions, desc)
						return
					}
					if k[1] != e.Lines[no-1] {
						// a stream cut between "\r" and "\n" legitimately ends in "\r"
						if !strings.HasPrefix(e.Lines[no-1]+"\r", k[1]) {
							rc.Violate("lines-failed-input", "failed input %s (%s): line %s delivered as %q, the input's line is %q\n%s", p, e.Why, k[0], clip(k[1], 80), clip(e.Lines[no-1], 80), desc)
							return
						}
						partial += n
					}
				}
				if partial > e.Mentions {
					rc.Violate("lines-failed-input", "failed input %s (%s): %d cut lines for %d mentions\n%s", p, e.Why, partial, e.Mentions, desc)
					return
				}
			}
		}
		for src, g := range got {
			rc.Violate("unexpected-source", "%d output lines carry source %q, which is not among the inputs %v\n%s", len(g), src, expOrder, desc)
			return
		}
		// ---- stderr ----
		m := regexp.MustCompile(`(?m)^Matched: ([0-9,]+) / ([0-9,]+)`).FindSubmatch(res.Stderr)
		if m == nil {
			rc.Violate("summary-missing", "no summary line on stderr: %q\n%s", clip(string(res.Stderr), 300), desc)
			return
		}
		mm, _ := strconv.Atoi(strings.ReplaceAll(string(m[1]), ",", ""))
		rr, _ := strconv.Atoi(strings.ReplaceAll(string(m[2]), ",", ""))
		if mm != len(outLines) || rr != len(outLines) {
			rc.Violate("summary-count", "summary says Matched: %d / %d, stdout has %d lines\n%s", mm, rr, len(outLines), desc)
		}
		for _, p := range expOrder {
			e := exp[p]
			if e.Fails && !bytes.Contains(res.Stderr, []byte(p)) {
				rc.Violate("failure-not-logged", "input %s fails (%s) but stderr does not name it: %q\n%s", p, e.Why, clip(string(res.Stderr), 400), desc)
			}
			if e.Fails {
				// a failure is reported once per mention (lines that begin an error report - not the note about falling back to plain reading - and name the path right before a colon;
				// a tree that words its messages differently is simply not counted)
				n := 0
				for _, l := range strings.Split(string(res.Stderr), "\n") {
					if strings.Contains(l, "Error ") && !strings.Contains(l, "Reading as plain file") && strings.Contains(l, " "+p+":") {
						n++
					}
				}
				if n > e.Mentions {
					rc.Violate("failure-reported-twice", "input %s fails (%s) and is mentioned %d times, but %d error lines name it: %q\n%s", p, e.Why, e.Mentions, n, clip(string(res.Stderr), 500), desc)
				}
			}
		}
		// ---- exit status ----
		wantExit := 0
		switch {
		case anyFail:
			wantExit = 2
		case total == 0:
			wantExit = 1
		}
		if res.Exit != wantExit {
			rc.Violate("exit-status", "exit status %d, expected %d (failing inputs: %v, matched lines: %d)\nstderr: %q\n%s", res.Exit, wantExit, anyFail, total, clip(string(res.Stderr), 300), desc)
		}
		// ---- opens ----
		opens := map[string]int{}
		for _, ev := range s.FS.Log {
			if ev.Op == "open" || ev.Op == "open-fail" {
				opens[ev.Path]++
			}
		}
		for _, p := range expOrder {
			if p == "<stdin>" {
				continue
			}
			if opens[p] != exp[p].Mentions {
				rc.Violate("open-count", "input %s is mentioned %d times and was opened %d times\n%s", p, exp[p].Mentions, opens[p], desc)
			}
			delete(opens, p)
		}
		for p, n := range opens {
			rc.Violate("open-unexpected", "%s was opened %d times but is not among the inputs\n%s", p, n, desc)
		}
		// one reader and one worker: what is printed, and in which order, is a function of the command line and the files -
		// whatever the goroutines that expand the arguments, read and match do in between. The same command under another
		// schedule must print the same bytes (no assumption about which order that is)
		if readers == 1 && workers == 1 && !useStdin && len(mentions) >= 2 && len(rc.Viol) == 0 && faultPath == "" {
			s2 := rc.NewSim(c06Opts)
			s2.FS.Default = legal
			res2 := runCLI(rc, s2, append(flags, args...))
			rc.Absorb(s2)
			if rc.StdEnd(s2, "termination") && !bytes.Equal(res.Stdout, res2.Stdout) {
				a, b := strings.Split(string(res.Stdout), "\n"), strings.Split(string(res2.Stdout), "\n")
				rc.Violate("order-not-deterministic", "one reader, one worker: the same command printed its lines in two different orders under two schedules (%d and %d lines); first difference: %s\n%s", len(a)-1, len(b)-1, firstDiff(a, b), desc)
			}
			rc.Probes["one-reader-one-worker-repeated"]++
		}
		if anyFail {
			rc.Probes["runs-with-failing-input"]++
		}
		if len(mentions) > readers {
			rc.Probes["more-inputs-than-readers"]++
		}
		rc.Probes["mentions"] += int64(len(mentions))
		rc.Nontrivial = s.MultiChoice > 0 && (len(mentions) > 0 || useStdin)
		rc.Logf("exit=%d lines=%d mentions=%d", res.Exit, len(outLines), len(mentions))
		sort.Slice(outLines, func(i, j int) bool { return bytes.Compare(outLines[i], outLines[j]) < 0 })
		for _, l := range outLines {
			rc.Logf("%q", l)
		}
	}
}

func c06Gunzip(raw []byte) ([]byte, error) {
	zr, err := gzip.NewReader(bytes.NewReader(raw))
	if err != nil {
		return nil, err
	}
	return io.ReadAll(zr)
}

func c06Lines(data []byte) []string {
	var out []string
	for _, l := range refSplit(data) {
		out = append(out, string(l))
	}
	return out
}

// c06Walk lists the non-directory entries below root in lexical order (the order filepath.Walk promises).
func c06Walk(root string) []string {
	var out []string
	ents, err := os.ReadDir(root)
	if err != nil {
		return nil
	}
	names := make([]string, 0, len(ents))
	isDir := map[string]bool{}
	for _, e := range ents {
		names = append(names, e.Name())
		isDir[e.Name()] = e.IsDir()
	}
	sort.Strings(names)
	for _, n := range names {
		p := filepath.Join(root, n)
		if isDir[n] {
			out = append(out, c06Walk(p)...)
		} else {
			out = append(out, p)
		}
	}
	return out
}

// c06Glob is the reference expansion of a pattern whose metacharacters may appear in any component:
// own directory listing + filepath.Match per component.
func c06Glob(pattern string) (matches []string, bad bool) {
	if _, err := filepath.Match(pattern, ""); err != nil {
		return nil, true
	}
	if !strings.ContainsAny(pattern, `*?[\`) {
		if _, err := os.Lstat(pattern); err == nil {
			return []string{pattern}, false
		}
		return nil, false
	}
	parts := strings.Split(pattern, "/")
	cur := []string{""}
	for _, part := range parts {
		var next []string
		for _, base := range cur {
			if !strings.ContainsAny(part, `*?[\`) {
				p := filepath.Join(base, part)
				if _, err := os.Lstat(p); err == nil {
					next = append(next, p)
				}
				continue
			}
			dir := base
			if dir == "" {
				dir = "."
			}
			fi, err := os.Stat(dir)
			if err != nil || !fi.IsDir() {
				continue
			}
			ents, _ := os.ReadDir(dir)
			names := make([]string, 0, len(ents))
			for _, e := range ents {
				names = append(names, e.Name())
			}
			sort.Strings(names)
			for _, n := range names {
				if ok, _ := filepath.Match(part, n); ok {
					next = append(next, filepath.Join(base, n))
				}
			}
		}
		cur = next
	}
	return cur, false
}
